//! C09 — densification protocol of OptDensMinHash / RevOptDensMinHash.
//! Histories over sketch / sketch_slice / end_sketch / reinit with faults: double finish, late
//! items after finishing, finishing with nothing streamed, restart in the middle.
//! The state is read through the guarded hook before and after every finishing step; the
//! densify loops carry a step budget (simulated time) for bounded liveness.

use crate::core::*;
use crate::nodes::*;
use crate::prng::Rng;
use serde::{Deserialize, Serialize};
use std::collections::{BTreeMap, BTreeSet};

#[derive(Serialize, Deserialize, Clone, Debug, PartialEq)]
pub enum DOp {
    Item(u64),
    Slice(Vec<u64>),
    End,
    Reinit,
}

#[derive(Serialize, Deserialize, Clone, Debug)]
pub struct DensPlan {
    pub spec: USpec,
    pub ops: Vec<DOp>,
    /// the generator planted pairs of items that tie exactly in f32 (same bin, same value)
    #[serde(default)]
    pub planted_ties: u32,
}

pub struct Dens;

pub fn dens_budget(kind: UKind, m: usize, populated: usize) -> u64 {
    let lm = (m.max(2) as f64).ln() + 8.0;
    let per = match kind {
        // every empty bin draws until it hits a populated one: geometric with mean m/populated
        UKind::OptF64 | UKind::OptF32 => (m as f64) * ((m as f64) / (populated.max(1) as f64)).ceil(),
        // one pass costs m steps, the number of passes is logarithmic
        _ => m as f64,
    };
    (64.0 * per * lm) as u64 + 10_000
}

struct Finished {
    f: Vec<u64>,
    h64: Vec<u64>,
    h32: Vec<u64>,
}

/// runs a finishing call under the step budget. Ok(true) = returned normally, Ok(false) = reported failure (Err or ordinary panic)
fn finish_call<F: FnOnce() -> bool>(ctx: &mut Ctx, budget: u64, empty_stream: bool, what: &str, f: F) -> Result<bool, Violation> {
    probminhash::verif::set_budget(Some(budget));
    let r = caught(f);
    let used = probminhash::verif::ticks();
    probminhash::verif::set_budget(None);
    ctx.count_n("densify-steps", used);
    match r {
        Ok(ok) => Ok(ok),
        Err(msg) => {
            let hang = msg.contains(probminhash::verif::BUDGET_MARKER);
            if empty_stream {
                ctx.check("C09", "finish-on-empty-stream-reports-failure", !hang, || {
                    format!("{} with nothing streamed did not return within {} densification steps (hang)", what, budget)
                })?;
                ctx.count("probe:empty-stream-failure-reported");
                Ok(false)
            } else {
                ctx.check("C09", "finish-terminates", !hang, || {
                    format!("{} on a non-empty stream did not return within {} densification steps", what, budget)
                })?;
                // an ordinary panic on a non-empty stream is not a legal outcome
                Err(Violation { property: ctx.target.clone(), oracle: "unexpected-panic".into(), key: String::new(), detail: msg })
            }
        }
    }
}

impl Scenario for Dens {
    type Plan = DensPlan;
    fn name(&self) -> &'static str {
        "dens"
    }

    fn generate(&self, rng: &mut Rng, tier: Tier, _t: &str) -> DensPlan {
        let big = tier == Tier::Thorough && rng.chance(0.02);
        let kinds = [UKind::OptF64, UKind::OptF32, UKind::RevF64, UKind::RevF32];
        let mut spec = gen_uspec(rng, &kinds, if big { 20_000 } else { 256 });
        if big {
            spec.m = rng.log_range(257, 20_000) as usize;
        }
        let sparse_huge = !big && rng.chance(0.03);
        if sparse_huge {
            spec.m = rng.log_range(1500, 6000) as usize;
        }
        if rng.chance(0.0004) {
            // more bins than a 16-bit index can address (sizes around 2^16 and beyond), a third to all of them populated
            spec.m = *rng.pick(&[65_535usize, 65_536, 65_537, 66_000, 70_537, 90_001]);
            if rng.chance(0.5) {
                spec.m = rng.range(65_537, 100_000) as usize;
            }
            let n = rng.range(spec.m as u64 / 3, spec.m as u64);
            let items: Vec<u64> = (0..n).map(|_| if spec.elem == ElemT::U32 { rng.u64() & 0xffff_ffff } else { rng.u64() >> 2 }).collect();
            let ops = if rng.chance(0.5) {
                vec![DOp::Slice(items)]
            } else {
                let mut o: Vec<DOp> = items.into_iter().map(DOp::Item).collect();
                o.push(DOp::End);
                o
            };
            return DensPlan { spec, ops, planted_ties: 0 };
        }
        if rng.chance(0.004) {
            // one long slice (thousands of items, any length) against the item-wise twin
            spec.m = rng.log_range(16, 512) as usize;
            let n = rng.range(4000, 12_000);
            let base = rng.u64() >> 2;
            let items: Vec<u64> = (0..n).map(|k| if spec.elem == ElemT::U32 { (base + k) & 0xffff_ffff } else { base + k }).collect();
            return DensPlan { spec, ops: vec![DOp::Slice(items)], planted_ties: 0 };
        }
        if tier == Tier::Thorough && rng.chance(0.0007) {
            // one huge slice (above a million items) against the item-wise twin
            spec.m = rng.log_range(1024, 16_384) as usize;
            let n = rng.range(1_000_000, 1_300_000);
            let base = rng.u64() >> 2;
            let items: Vec<u64> = (0..n).map(|k| if spec.elem == ElemT::U32 { (base + k) & 0xffff_ffff } else { base + k }).collect();
            return DensPlan { spec, ops: vec![DOp::Slice(items)], planted_ties: 0 };
        }
        let m = spec.m;
        let pool = crate::sc_stream::gen_items(rng, (3 * m).clamp(4, 3000), spec.elem);
        let nseg = rng.urange(1, 3);
        let mut ops = vec![];
        let mut planted = 0u32;
        for s in 0..nseg {
            if s > 0 {
                ops.push(DOp::Reinit);
            }
            // number of items: sparse regimes favoured
            let n = match if sparse_huge { rng.range(1, 3) } else { rng.below(10) } {
                0 => 0,
                1 | 2 => 1,
                3 => 2,
                4 | 5 => rng.log_range(1, m.max(1) as u64) as usize,
                6 => (m / rng.urange(2, 20)).max(1),
                _ => rng.log_range(1, (3 * m).max(1) as u64) as usize,
            };
            // the Opt variant costs m^2/n steps: keep huge sparse cases rare but present
            let n = if big && matches!(spec.kind, UKind::OptF64 | UKind::OptF32) { n.max(m / 200) } else { n };
            let n = if sparse_huge { n.clamp(1, 4) } else { n };
            let mut items: Vec<u64> = (0..n).map(|_| *rng.pick(&pool)).collect();
            if spec.kind.is_f32_dens() && m <= 16 && rng.chance(0.25) {
                let ties = f32_tie_pairs(&spec);
                if !ties.is_empty() {
                    planted += 1;
                    let (a, b) = *rng.pick(&ties);
                    let pos = rng.usize_below(items.len() + 1);
                    items.insert(pos, a);
                    let pos = rng.usize_below(items.len() + 1);
                    items.insert(pos, b);
                }
            }
            if rng.chance(0.5) {
                items.sort();
            }
            match rng.below(5) {
                0 | 1 => {
                    // item-wise, finish, faults
                    let cut = if rng.chance(0.15) && !items.is_empty() { rng.usize_below(items.len()) } else { items.len() };
                    for i in &items[..cut] {
                        ops.push(DOp::Item(*i));
                    }
                    if cut < items.len() {
                        // restart in the middle of the stream
                        ops.push(DOp::Reinit);
                        for i in &items[cut..] {
                            ops.push(DOp::Item(*i));
                        }
                    }
                    ops.push(DOp::End);
                    if rng.chance(0.4) {
                        ops.push(DOp::End); // double finish
                    }
                    if rng.chance(0.3) {
                        for _ in 0..rng.urange(1, 5) {
                            ops.push(DOp::Item(*rng.pick(&pool))); // late items
                        }
                        ops.push(DOp::End);
                    }
                }
                2 | 3 => {
                    ops.push(DOp::Slice(items));
                    if rng.chance(0.3) {
                        ops.push(DOp::End);
                    }
                    if rng.chance(0.15) {
                        let k = rng.urange(0, 4);
                        ops.push(DOp::Slice((0..k).map(|_| *rng.pick(&pool)).collect())); // late slice
                    }
                }
                _ => {
                    // mixed: some items, then a slice that finishes
                    let cut = if items.is_empty() { 0 } else { rng.usize_below(items.len() + 1) };
                    for i in &items[..cut] {
                        ops.push(DOp::Item(*i));
                    }
                    ops.push(DOp::Slice(items[cut..].to_vec()));
                }
            }
        }
        DensPlan { spec, ops, planted_ties: planted }
    }

    fn execute(&self, plan: &DensPlan, ctx: &mut Ctx) -> Result<(), Violation> {
        let spec = &plan.spec;
        let m = spec.m;
        if m <= 4096 {
            decoy_unode(spec);
        }
        let mut node = make_unode(spec);
        // model
        let mut streamed: Vec<u64> = vec![]; // sequence since last reinit
        let mut finishes_in_segment = 0u32;
        let mut u32_of: BTreeMap<u64, u64> = BTreeMap::new();
        let mut finished: Vec<Finished> = vec![];
        let mut any_nonempty_finish = false;
        if plan.planted_ties > 0 {
            ctx.count_n("fault:exact-f32-tie-pair-planted", plan.planted_ties as u64);
        }

        for op in &plan.ops {
            match op {
                DOp::Item(i) => {
                    ctx.ev("deliver", *i);
                    if finishes_in_segment > 0 {
                        ctx.count("fault:late-item-after-finish");
                    }
                    streamed.push(*i);
                    node.deliver(*i);
                    let st = node.dens_state().unwrap();
                    let pop = st.init.iter().filter(|b| **b).count() as i64;
                    ctx.check("C09", "empty-count-consistent", st.nb_empty == m as i64 - pop, || {
                        format!("after sketch: nb_empty = {} but {} of {} bins are populated", st.nb_empty, pop, m)
                    })?;
                }
                DOp::Reinit => {
                    ctx.ev("restart", 0);
                    ctx.count("fault:restart");
                    node.restart();
                    streamed.clear();
                    finishes_in_segment = 0;
                }
                DOp::End | DOp::Slice(_) => {
                    let is_slice = matches!(op, DOp::Slice(_));
                    if let DOp::Slice(c) = op {
                        ctx.ev("deliver-chunk", c.len() as u64);
                        for i in c {
                            ctx.sched.add(*i);
                        }
                        if finishes_in_segment > 0 {
                            ctx.count("fault:late-slice-after-finish");
                        }
                    } else {
                        ctx.ev("finish", 0);
                        if finishes_in_segment > 0 {
                            ctx.count("fault:double-finish");
                        }
                    }
                    // state just before densification: for a slice, replay its items on a shadow node
                    // is not needed — the hook lets us compute "before" by applying the items item-wise
                    // on the same node is not possible either (sketch_slice does both). So for a slice
                    // the pre-densification state is obtained from a twin that received the same
                    // history item-wise (real code, same order).
                    let before: DensState = if let DOp::Slice(c) = op {
                        let mut tw = make_unode(spec);
                        // rebuild the node's current state: the hook state is copied by replaying the
                        // segment's history is not generally possible after a finish; use the state itself
                        let cur = node.dens_state().unwrap();
                        if finishes_in_segment == 0 {
                            for i in &streamed {
                                tw.deliver(*i);
                            }
                            ctx.check("C09", "twin-reconstruction", tw.dens_state().unwrap() == cur, || {
                                "item-wise twin does not reproduce the node's unfinished state".into()
                            })?;
                            for i in c {
                                tw.deliver(*i);
                            }
                            streamed.extend(c.iter().copied());
                            tw.dens_state().unwrap()
                        } else {
                            // already finished earlier: nb_empty == 0, the slice can only overwrite bins; no densification follows
                            streamed.extend(c.iter().copied());
                            cur
                        }
                    } else {
                        node.dens_state().unwrap()
                    };
                    let empty_stream = streamed.is_empty();
                    if empty_stream {
                        ctx.count("fault:finish-on-empty-stream");
                    }
                    let late_slice = is_slice && finishes_in_segment > 0;
                    let populated = before.init.iter().filter(|b| **b).count();
                    let budget = if empty_stream { dens_budget(UKind::RevF64, m, 1) } else { dens_budget(spec.kind, m, populated) };
                    let ok = match op {
                        DOp::Slice(c) => {
                            let c = c.clone();
                            let n = &mut node;
                            finish_call(ctx, budget, empty_stream, "sketch_slice", move || n.chunk(&c))?
                        }
                        _ => {
                            let n = &mut node;
                            finish_call(ctx, budget, empty_stream, "end_sketch", move || {
                                n.finish();
                                true
                            })?
                        }
                    };
                    let after = node.dens_state().unwrap();
                    if empty_stream {
                        // nothing was streamed: failure must be reported. sketch_slice has a Result for that;
                        // end_sketch has no return channel, so either a panic or a return that leaves the
                        // sketch visibly unfinished (getters then refuse) counts as reported.
                        if ok {
                            ctx.check("C09", "finish-on-empty-stream-reports-failure", !is_slice && after.nb_empty > 0, || {
                                if is_slice {
                                    "sketch_slice with nothing streamed returned Ok".to_string()
                                } else {
                                    "end_sketch with nothing streamed returned and left a sketch that claims to be finished".to_string()
                                }
                            })?;
                            ctx.count("probe:empty-stream-failure-reported");
                        }
                        ctx.check("C09", "failed-finish-leaves-state", after == before, || {
                            "a failed finishing call changed the sketch state".into()
                        })?;
                        continue;
                    }
                    ctx.check("C09", "finish-reports-success", ok, || "finishing call on a non-empty stream returned Err".into())?;
                    any_nonempty_finish = true;
                    if before.nb_empty > 0 {
                        ctx.count("probe:densification-ran");
                        if populated == 1 {
                            ctx.count("probe:single-populated-bin");
                        }
                    } else if !is_slice {
                        ctx.count("probe:idempotent-finish-checked");
                    }
                    // (a) populated bins untouched; (b) other bins copy a pair of a bin populated before; (c) all populated
                    let pairs: BTreeSet<(u64, u64)> = (0..m).filter(|k| before.init[*k]).map(|k| (before.fvals[k], before.hashes[k])).collect();
                    for k in 0..m {
                        if late_slice {
                            // a slice delivered to an already finished sketch legitimately overwrites bins
                            // (the pre-densification state is not observable for it); only the
                            // state-independent relations below apply
                            break;
                        }
                        if before.init[k] {
                            ctx.check("C09", "populated-bin-untouched", after.fvals[k] == before.fvals[k] && after.hashes[k] == before.hashes[k], || {
                                format!("bin {} held ({:#x},{:#x}) before finishing and ({:#x},{:#x}) after", k, before.fvals[k], before.hashes[k], after.fvals[k], after.hashes[k])
                            })?;
                        } else {
                            ctx.check("C09", "filled-bin-copies-populated-pair", pairs.contains(&(after.fvals[k], after.hashes[k])), || {
                                format!("bin {} was filled with ({:#x},{:#x}) which is not the (value, hash) pair of any bin populated before", k, after.fvals[k], after.hashes[k])
                            })?;
                        }
                    }
                    ctx.check("C09", "all-bins-populated-after-finish", after.nb_empty == 0 && after.init.iter().all(|b| *b), || {
                        format!("after finishing nb_empty = {} and {} bins unpopulated", after.nb_empty, after.init.iter().filter(|b| !**b).count())
                    })?;
                    if before.nb_empty == 0 && !late_slice {
                        ctx.check("C09", "finish-idempotent", after == before, || "a finishing call on an already finished sketch changed it".into())?;
                    }
                    // views
                    let views = node.views();
                    crate::sc_stream::digest_views(ctx, &views);
                    let (f, h64, h32) = (views[0].1.clone(), views[1].1.clone(), views[2].1.clone());
                    ctx.check("C09", "views-match-state", f == after.fvals && h64 == after.hashes, || "public views differ from the internal state".into())?;
                    // (d) hashes of streamed items
                    let hs: BTreeSet<u64> = streamed.iter().map(|i| node.hash_of(*i)).collect();
                    let bad = h64.iter().position(|h| !hs.contains(h));
                    ctx.check("C09", "position-holds-streamed-hash", bad.is_none(), || {
                        format!("u64 view position {:?} holds {:#x}, not the hash of a streamed item", bad, bad.map(|p| h64[p]).unwrap_or(0))
                    })?;
                    // (e) u32 view is a function of the u64 view (across the whole run)
                    for p in 0..m {
                        let e = u32_of.entry(h64[p]).or_insert(h32[p]);
                        ctx.check("C09", "u32-view-function-of-u64-view", *e == h32[p], || {
                            format!("u64 value {:#x} maps to u32 {:#x} at one position and {:#x} at another", h64[p], *e, h32[p])
                        })?;
                    }
                    // (f) agreement in u64 implies agreement in float and u32, against every earlier finished sketch
                    for prev in &finished {
                        for p in 0..m {
                            if prev.h64[p] == h64[p] {
                                ctx.check("C09", "u64-agreement-implies-other-views", prev.f[p] == f[p] && prev.h32[p] == h32[p], || {
                                    format!("position {}: equal u64 {:#x} but float {:#x} vs {:#x}, u32 {:#x} vs {:#x}", p, h64[p], prev.f[p], f[p], prev.h32[p], h32[p])
                                })?;
                            }
                        }
                    }
                    // (g) slice == item-wise + finish (same order), first finish of a segment only
                    if finishes_in_segment == 0 {
                        let mut tw = make_unode(spec);
                        if is_slice {
                            // node used (items..., slice): twin goes item-wise + end_sketch
                            for i in &streamed {
                                tw.deliver(*i);
                            }
                            tw.finish();
                        } else {
                            let all = streamed.clone();
                            let okc = tw.chunk(&all);
                            ctx.check("C09", "finish-reports-success", okc, || "twin sketch_slice returned Err".into())?;
                        }
                        let tv = tw.views();
                        let same = tv.iter().zip(views.iter()).all(|(a, b)| a.1 == b.1);
                        ctx.check("C09", "slice-equals-itemwise-plus-finish", same, || {
                            format!("{} items, m {}: sketch_slice and item-wise sketch + end_sketch give different sketches", streamed.len(), m)
                        })?;
                        ctx.count("probe:slice-vs-itemwise-compared");
                    }
                    finished.push(Finished { f, h64, h32 });
                    if finished.len() > 4 {
                        finished.remove(0);
                    }
                    finishes_in_segment += 1;
                }
            }
        }
        ctx.nontrivial = any_nonempty_finish && plan.ops.len() >= 2;
        Ok(())
    }

    fn shrink(&self, plan: &DensPlan) -> Vec<DensPlan> {
        let mut out = vec![];
        for ops in shrink_vec(&plan.ops) {
            if ops.is_empty() {
                continue;
            }
            let mut p = plan.clone();
            p.ops = ops;
            out.push(p);
        }
        for m in [1usize, 2, plan.spec.m / 2, plan.spec.m.saturating_sub(1)] {
            if m >= 1 && m < plan.spec.m {
                let mut p = plan.clone();
                p.spec.m = m;
                out.push(p);
            }
        }
        for (k, op) in plan.ops.iter().enumerate() {
            if let DOp::Slice(c) = op {
                if !c.is_empty() && out.len() < 300 {
                    for cc in shrink_vec(c).into_iter().take(6) {
                        let mut p = plan.clone();
                        p.ops[k] = DOp::Slice(cc);
                        out.push(p);
                    }
                }
            }
        }
        if plan.spec.hash != HashT::Fnv {
            let mut p = plan.clone();
            p.spec.hash = HashT::Fnv;
            out.push(p);
        }
        out
    }

    fn doc(&self) -> Doc {
        Doc {
            rule: "seeded histories over sketch / sketch_slice / end_sketch / reinit for OptDensMinHash and RevOptDensMinHash (f64, f32), m 1..256 (thorough: up to 20000), 0..3m items with sparse regimes favoured; faults: double finish, late items / slices after finishing, finishing with nothing streamed, restart mid-stream; non-trivial = at least one finishing step on a non-empty stream and >= 2 operations; distinct = distinct operation-sequence fingerprints",
            real: &["OptDensMinHash", "RevOptDensMinHash", "murmur3 (u32 view)", "ChaCha12 / Xoshiro generators"],
            stub: &["step budget (guarded tick() hook in the two densify loops) as simulated time for bounded liveness"],
            assumptions: &[
                "step budget: Opt 64*m*ceil(m/populated)*(ln m + 8) + 10^4, Rev and empty streams 64*m*(ln m + 8) + 10^4 loop iterations; correct code needs orders of magnitude fewer",
                "getters are never called before finishing (documented precondition panic)",
            ],
        }
    }
}
