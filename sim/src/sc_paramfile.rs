//! C20 — SetSketchParams dump / reload and torn files.
//! Model: the durable byte content of `parameters.json`. Two configurations:
//!  * `paramfile`      in-process, real std::fs + serde_json: dump sequences, round trip, every
//!                     prefix of the written file as crash point, missing file;
//!  * `paramfile-shim` the same operations in child processes under the LD_PRELOAD syscall shim
//!                     (shim/simfs.c): the process is really killed after k bytes of the write stream
//!                     for every k, short writes / short reads / EINTR / ENOSPC are injected.

use crate::core::*;
use crate::prng::Rng;
use probminhash::setsketcher::SetSketchParams;
use serde::{Deserialize, Serialize};
use std::path::{Path, PathBuf};
use std::process::Command;
use std::sync::atomic::{AtomicU64, Ordering};

#[derive(Serialize, Deserialize, Clone, Debug, PartialEq)]
pub struct PfParams {
    pub b_bits: u64,
    pub m: u64,
    pub a_bits: u64,
    pub q: u64,
    /// a and b were produced from decimal strings of at most 15 significant digits
    pub short_decimal: bool,
    /// the decimal strings, for the reader of a trace
    pub b_text: String,
    pub a_text: String,
}
impl PfParams {
    /// the parameter object handed to dump_json. A third of the tuples are built the other public way
    /// (`new` with another size, then `set_m`): the dumped file must not depend on how m got there.
    fn params(&self) -> SetSketchParams {
        if self.m % 3 == 1 {
            let mut p = SetSketchParams::new(f64::from_bits(self.b_bits), 7, f64::from_bits(self.a_bits), self.q);
            p.set_m(self.m as usize);
            return p;
        }
        SetSketchParams::new(f64::from_bits(self.b_bits), self.m, f64::from_bits(self.a_bits), self.q)
    }
}

#[derive(Serialize, Deserialize, Clone, Debug, Default, PartialEq)]
pub struct IoFaults {
    pub short_write: Option<u32>,
    pub eintr_write: Option<u32>,
    pub short_read: Option<u32>,
    pub eintr_read: Option<u32>,
}

#[derive(Serialize, Deserialize, Clone, Debug)]
pub struct PfPlan {
    pub dumps: Vec<PfParams>,
    pub faults: IoFaults,
    /// crash points to try on the last dump; None = all of them (before open, every byte offset)
    pub crash_offsets: Option<Vec<i64>>,
    pub enospc_at: Option<u32>,
    /// clock fault: the file system has coarse timestamps - every dump leaves the same modification time
    #[serde(default)]
    pub coarse_mtime: bool,
    /// a second directory of the same process receives other parameters between every dump and its reload
    #[serde(default)]
    pub second_dir: bool,
    /// after the sequential part two threads dump and reload different parameters in their own directories at the same time
    #[serde(default)]
    pub concurrent: bool,
    /// the dump directory has a name that is not valid UTF-8
    #[serde(default)]
    pub latin1_dir: bool,
}

static DIRSEQ: AtomicU64 = AtomicU64::new(0);

/// scratch directories live on tmpfs when there is one (an order of magnitude faster for the
/// hundreds of thousands of small files a batch creates), else under /verif/.scratch
pub fn scratch_root() -> PathBuf {
    if let Ok(p) = std::env::var("VERIF_SCRATCH") {
        return PathBuf::from(p);
    }
    let shm = Path::new("/dev/shm");
    if shm.is_dir() {
        let p = shm.join("verif-scratch");
        if std::fs::create_dir_all(&p).is_ok() {
            return p;
        }
    }
    crate::verif_root().join(".scratch")
}

struct Scratch(PathBuf);
impl Scratch {
    fn new(tag: &str) -> Scratch {
        let n = DIRSEQ.fetch_add(1, Ordering::Relaxed);
        let p = scratch_root().join(format!("pf-{}-{}-{}", tag, std::process::id(), n));
        std::fs::create_dir_all(&p).expect("harness: cannot create scratch directory");
        Scratch(p)
    }
    /// a directory whose name is not valid UTF-8 (legal on Unix: a Latin-1 name); None if the file system refuses it
    fn new_latin1(tag: &str) -> Option<Scratch> {
        use std::os::unix::ffi::OsStrExt;
        let n = DIRSEQ.fetch_add(1, Ordering::Relaxed);
        let mut name = format!("pf-{}-{}-{}-donn", tag, std::process::id(), n).into_bytes();
        name.extend_from_slice(b"\xe9es");
        let p = scratch_root().join(std::ffi::OsStr::from_bytes(&name));
        std::fs::create_dir_all(&p).ok()?;
        Some(Scratch(p))
    }
    fn file(&self) -> PathBuf {
        self.0.join("parameters.json")
    }
}
impl Drop for Scratch {
    fn drop(&mut self) {
        let _ = std::fs::remove_dir_all(&self.0);
    }
}

fn gen_short_decimal(rng: &mut Rng, for_b: bool) -> (f64, String) {
    let s = if for_b {
        // b in (1, 2]: 1.<d digits>, d <= 14 so that there are at most 15 significant digits
        if rng.chance(0.1) {
            "2".to_string()
        } else {
            let d = rng.urange(1, 14);
            let mut frac = String::new();
            for k in 0..d {
                let digit = if k == d - 1 { rng.range(1, 9) } else { rng.range(0, 9) };
                frac.push(char::from(b'0' + digit as u8));
            }
            format!("1.{}", frac)
        }
    } else {
        match rng.below(6) {
            0 => "20".to_string(),
            1 => format!("{}", rng.range(1, 100000)),
            2 => format!("0.{}", rng.range(1, 999_999_999_999_999)),
            3 => format!("{}.{}", rng.range(1, 9999), rng.range(1, 99_999_999_999)),
            4 => format!("{}e{}", rng.range(1, 999_999), rng.range(0, 200) as i64 - 100),
            _ => format!("{}.{}e{}", rng.range(1, 9), rng.range(0, 99_999_999_999_999), rng.range(0, 500) as i64 - 250),
        }
    };
    (s.parse::<f64>().unwrap(), s)
}

fn gen_params(rng: &mut Rng) -> PfParams {
    let short = rng.chance(0.5);
    let (b, bt, a, at) = if short {
        let (b, bt) = gen_short_decimal(rng, true);
        let (a, at) = gen_short_decimal(rng, false);
        (b, bt, a, at)
    } else {
        // arbitrary bit patterns: b in (1,2), a positive finite over the whole exponent range
        let b = f64::from_bits(0x3ff0_0000_0000_0000 | (rng.u64() >> 12).max(1));
        let a = match rng.below(6) {
            0 => f64::from_bits(rng.range(1, 0x000f_ffff_ffff_ffff)), // subnormal
            1 => f64::MAX,
            2 => f64::MIN_POSITIVE,
            3 => f64::from_bits(rng.range(0x0010_0000_0000_0000, 0x7fef_ffff_ffff_ffff)),
            _ => f64::from_bits(0x3000_0000_0000_0000 + rng.below(0x2000_0000_0000_0000)),
        };
        (b, format!("{:e}", b), a, format!("{:e}", a))
    };
    // values that are exactly representable in single precision but need many decimal digits
    let (b, bt, a, at, short) = if rng.chance(0.08) {
        let bf = (1.0f32 + (rng.below(1 << 23) as f32 + 1.0) / (1u32 << 23) as f32) as f64;
        let af = f32::from_bits(rng.range(0x3000_0000, 0x4f00_0000) as u32) as f64;
        (bf, format!("{:e}", bf), af, format!("{:e}", af), false)
    } else {
        (b, bt, a, at, short)
    };
    // values that make no sense for a sketch but are parameter values all the same (`new` accepts any tuple):
    // a base at or below 1, above 2, zero, negative, at both ends of the exponent range; a zero or negative rate
    let (b, bt, a, at, short) = if rng.chance(0.06) {
        let bs = *rng.pick(&["1", "0.5", "0.999999999", "1.000000000001", "2.5", "3.75", "1e300", "5e-324", "-1.5", "0", "1e-9", "17"]);
        let (a2, at2) = if rng.chance(0.3) { (*rng.pick(&[0.0f64, -20.0, -1e-3]), String::from("degenerate")) } else { (a, at) };
        (bs.parse::<f64>().unwrap(), bs.to_string(), a2, at2, short)
    } else {
        (b, bt, a, at, short)
    };
    let m = *rng.pick(&[1u64, 2, 64, 4096, 4096, 70000, u32::MAX as u64, 1 << 40, u64::MAX, 0]);
    let m = if rng.chance(0.3) { rng.log_range(1, 1 << 20) } else { m };
    // arbitrary 64-bit values: most are not representable in a double
    let m = if rng.chance(0.15) { rng.u64() | 1 } else { m };
    let q = *rng.pick(&[65534u64, 65534, 30, 0, 1 << 20, (1 << 32) - 2, 1 << 63, u64::MAX]);
    let q = if rng.chance(0.15) { (rng.u64() >> rng.below(12)) | 1 } else { q };
    PfParams { b_bits: b.to_bits(), m, a_bits: a.to_bits(), q, short_decimal: short, b_text: bt, a_text: at }
}

fn roundtrip_ok(p: &PfParams, got: &SetSketchParams) -> Result<(), String> {
    if got.get_m() != p.m {
        return Err(format!("m: dumped {} reloaded {}", p.m, got.get_m()));
    }
    if got.get_q() != p.q {
        return Err(format!("q: dumped {} reloaded {}", p.q, got.get_q()));
    }
    for (name, want, have) in [("b", p.b_bits, got.get_b().to_bits()), ("a", p.a_bits, got.get_a().to_bits())] {
        let d = want.abs_diff(have);
        let tol = if p.short_decimal { 0 } else { 1 };
        if d > tol {
            return Err(format!(
                "{}: dumped {:e} ({:#x}) reloaded {:e} ({:#x}), {} ulp apart (allowed {})",
                name,
                f64::from_bits(want),
                want,
                f64::from_bits(have),
                have,
                d,
                tol
            ));
        }
    }
    Ok(())
}

/// bytes the real dump_json produces for p in a clean directory (the reference content E(p))
fn reference_bytes(p: &PfParams) -> Vec<u8> {
    let d = Scratch::new("ref");
    p.params().dump_json(&d.0).expect("harness: reference dump failed");
    std::fs::read(d.file()).expect("harness: reference file unreadable")
}

#[derive(Debug, PartialEq)]
enum Reload {
    Ok(u64, u64, u64, u64),
    Err,
    Panic(String),
}

fn reload_inproc(dir: &Path) -> Reload {
    match caught(|| SetSketchParams::reload_json(dir)) {
        Ok(Ok(p)) => Reload::Ok(p.get_b().to_bits(), p.get_m(), p.get_a().to_bits(), p.get_q()),
        Ok(Err(_)) => Reload::Err,
        Err(msg) => Reload::Panic(msg),
    }
}

fn as_params(r: &Reload) -> Option<SetSketchParams> {
    match r {
        Reload::Ok(b, m, a, q) => Some(SetSketchParams::new(f64::from_bits(*b), *m, f64::from_bits(*a), *q)),
        _ => None,
    }
}

/// oracle shared by both configurations: what reload may return given the durable content
fn check_reload(
    ctx: &mut Ctx,
    what: &str,
    r: &Reload,
    expect: Option<&PfParams>, // Some(p): must return p; None: must return Err
) -> Result<(), Violation> {
    if let Reload::Panic(msg) = r {
        return ctx.check("C20", "reload-never-aborts", false, || format!("{}: reload_json panicked / aborted: {}", what, msg));
    }
    ctx.check("C20", "reload-never-aborts", true, String::new)?;
    match expect {
        None => ctx.check("C20", "torn-or-missing-file-is-an-error", *r == Reload::Err, || {
            format!("{}: reload_json returned parameters {:?} instead of an error", what, r)
        }),
        Some(p) => {
            let got = as_params(r);
            let res = match &got {
                Some(g) => roundtrip_ok(p, g),
                None => Err("reload_json returned an error for a completely written file".to_string()),
            };
            ctx.check("C20", "roundtrip-returns-dumped-parameters", res.is_ok(), || format!("{}: {}", what, res.unwrap_err()))
        }
    }
}

pub struct ParamFile;

impl Scenario for ParamFile {
    type Plan = PfPlan;
    fn name(&self) -> &'static str {
        "paramfile"
    }
    fn generate(&self, rng: &mut Rng, _tier: Tier, _t: &str) -> PfPlan {
        let n = *rng.pick(&[1usize, 1, 2, 2, 3]);
        let mut dumps: Vec<PfParams> = (0..n).map(|_| gen_params(rng)).collect();
        // a successor that serialises to the same length (one digit of q changed)
        if n >= 2 && rng.chance(0.4) {
            let mut t = dumps[0].clone();
            t.q = if t.q % 10 == 9 || t.q == u64::MAX { t.q - 1 } else { t.q + 1 };
            dumps[1] = t;
        } else if n >= 2 && rng.chance(0.3) {
            // two 15-significant-digit values that differ in their last digit only, same m and q
            let lead = rng.range(1, 9);
            let mid = rng.below(10_000_000_000_000);
            let last = rng.range(1, 8);
            let (s1, s2) = (format!("{}.{:013}{}", lead, mid, last), format!("{}.{:013}{}", lead, mid, last + 1));
            let mut t1 = dumps[0].clone();
            t1.short_decimal = true;
            t1.a_bits = s1.parse::<f64>().unwrap().to_bits();
            t1.a_text = s1;
            t1.b_bits = 1.5f64.to_bits();
            t1.b_text = "1.5".into();
            let mut t2 = t1.clone();
            t2.a_bits = s2.parse::<f64>().unwrap().to_bits();
            t2.a_text = s2;
            dumps[0] = t1;
            dumps[1] = t2;
        }
        let coarse_mtime = rng.chance(0.4);
        let second_dir = rng.chance(0.25);
        let concurrent = rng.chance(0.04);
        let latin1_dir = rng.chance(0.1);
        PfPlan { dumps, faults: IoFaults::default(), crash_offsets: None, enospc_at: None, coarse_mtime, second_dir, concurrent, latin1_dir }
    }
    fn execute(&self, plan: &PfPlan, ctx: &mut Ctx) -> Result<(), Violation> {
        let dir = match if plan.latin1_dir { Scratch::new_latin1("in") } else { None } {
            Some(d) => {
                ctx.count("fault:directory-name-not-utf8");
                d
            }
            None => Scratch::new("in"),
        };
        let dir2 = Scratch::new("in2");
        // missing file first, then a directory that does not exist at all
        ctx.ev("reload-missing", 0);
        ctx.count("fault:missing-file");
        check_reload(ctx, "missing file", &reload_inproc(&dir.0), None)?;
        ctx.count("fault:missing-directory");
        check_reload(ctx, "missing directory", &reload_inproc(&dir.0.join("no-such-directory")), None)?;
        let mut last: Option<(Vec<u8>, &PfParams)> = None;
        for (di, p) in plan.dumps.iter().enumerate() {
            let e = reference_bytes(p);
            if di == 0 && plan.dumps.len() >= 2 {
                // a dump that cannot succeed (directory does not exist) right before a real one must not influence it
                ctx.count("fault:failed-dump-into-missing-directory-first");
                let _ = caught(|| p.params().dump_json(&dir.0.join("no-such-directory")));
            }
            ctx.ev("dump", e.len() as u64);
            ctx.sched.add(p.b_bits ^ p.a_bits.rotate_left(17) ^ p.m.rotate_left(31) ^ p.q.rotate_left(47));
            if let Some((prev, _)) = &last {
                if prev.len() > e.len() {
                    ctx.count("fault:shorter-dump-over-longer-file");
                }
            }
            let r = caught(|| p.params().dump_json(&dir.0));
            ctx.check("C20", "dump-succeeds", matches!(r, Ok(Ok(()))), || format!("dump_json failed: {:?}", r))?;
            if plan.coarse_mtime {
                // every file written in this run carries the same timestamp (1 s / 2 s granularity file systems, cp -p)
                if let Ok(f) = std::fs::OpenOptions::new().write(true).open(dir.file()) {
                    let t = std::time::UNIX_EPOCH + std::time::Duration::from_secs(1_700_000_000);
                    if f.set_modified(t).is_ok() {
                        ctx.count("fault:coarse-modification-time");
                    }
                }
                if let Some((prev, _)) = &last {
                    if prev.len() == e.len() && *prev != e {
                        ctx.count("probe:same-length-same-mtime-different-content");
                    }
                }
            }
            if plan.second_dir {
                // another directory of the same process gets other parameters: neither file may influence the other
                let mut d = plan.dumps[(di + 1) % plan.dumps.len()].clone();
                d.q = if d.q == u64::MAX { 1 } else { d.q + 1 };
                d.m = d.m.rotate_left(1) ^ 2;
                ctx.count("fault:other-directory-dumped-in-between");
                let r2 = caught(|| d.params().dump_json(&dir2.0));
                ctx.check("C20", "dump-succeeds", matches!(r2, Ok(Ok(()))), || format!("dump_json into a second directory failed: {:?}", r2))?;
                check_reload(ctx, "second directory, after complete dump", &reload_inproc(&dir2.0), Some(&d))?;
            }
            let content = std::fs::read(dir.file()).unwrap_or_default();
            if content != e {
                // not a verdict by itself (the property speaks about what reload returns); the reload below decides
                ctx.count("observation:file-differs-from-dump-into-clean-directory");
            }
            ctx.ev("reload", 0);
            check_reload(ctx, "after complete dump", &reload_inproc(&dir.0), Some(p))?;
            last = Some((e, p));
        }
        // every prefix of the last file as crash point
        let (e, p) = last.unwrap();
        let offsets: Vec<i64> = match &plan.crash_offsets {
            Some(v) => v.clone(),
            None => (0..=e.len() as i64).collect(),
        };
        for k in offsets {
            let k = (k.max(0) as usize).min(e.len());
            ctx.ev("crash-at", k as u64);
            ctx.count("fault:file-cut-at-offset");
            std::fs::write(dir.file(), &e[..k]).expect("harness: cannot write torn file");
            let r = reload_inproc(&dir.0);
            if k < e.len() {
                check_reload(ctx, &format!("file cut at byte {} of {}", k, e.len()), &r, None)?;
            } else {
                check_reload(ctx, "complete file", &r, Some(p))?;
            }
            ctx.out.add(matches!(r, Reload::Err) as u64);
        }
        ctx.nontrivial = true;
        for b in &e {
            ctx.out.add(*b as u64);
        }
        if plan.concurrent {
            // two caller threads, each with its own directory and its own parameters, released together; the
            // verdict (every reload returns what that thread dumped last) does not depend on the interleaving
            ctx.count("fault:two-threads-dump-and-reload-at-once");
            let _ = crate::alloc_track::disarm();
            let pa = plan.dumps[0].clone();
            let mut pb = plan.dumps[plan.dumps.len() - 1].clone();
            pb.q = if pb.q == u64::MAX { 3 } else { pb.q + 1 };
            let bar = std::sync::Arc::new(std::sync::Barrier::new(2));
            let mut hs = vec![];
            for (t, pp) in [pa, pb].into_iter().enumerate() {
                let bar = bar.clone();
                let d = if t == 0 { dir.0.clone() } else { dir2.0.clone() };
                hs.push(std::thread::spawn(move || -> Result<(), String> {
                    bar.wait();
                    for it in 0..24u64 {
                        let mut p = pp.clone();
                        p.m = p.m.wrapping_add(3 * it);
                        match caught(|| p.params().dump_json(&d)) {
                            Ok(Ok(())) => {}
                            r => return Err(format!("thread {} iteration {}: dump_json failed: {:?}", t, it, r)),
                        }
                        let r = reload_inproc(&d);
                        match as_params(&r) {
                            Some(g) => roundtrip_ok(&p, &g).map_err(|e| format!("thread {} iteration {}: {}", t, it, e))?,
                            None => return Err(format!("thread {} iteration {}: reload of a complete file gave {:?}", t, it, r)),
                        }
                    }
                    Ok(())
                }));
            }
            let mut res = Ok(());
            for h in hs {
                match h.join() {
                    Ok(Ok(())) => {}
                    Ok(Err(e)) => res = Err(e),
                    Err(_) => res = Err("a dumping thread panicked".to_string()),
                }
            }
            ctx.check("C20", "roundtrip-returns-dumped-parameters", res.is_ok(), || format!("two threads at once: {}", res.clone().unwrap_err()))?;
        }
        Ok(())
    }
    fn shrink(&self, plan: &PfPlan) -> Vec<PfPlan> {
        shrink_pf(plan)
    }
    fn doc(&self) -> Doc {
        Doc {
            rule: "seeded parameter tuples (short decimals of <= 15 significant digits, arbitrary bit patterns incl. subnormal / MAX, m and q up to u64::MAX), 1..3 successive dumps into one directory (shorter over longer), then EVERY byte offset 0..=len of the last file as crash point (exhaustive per file), plus the missing file; every run is non-trivial; distinct = distinct (tuple sequence) fingerprints",
            real: &["SetSketchParams::dump_json / reload_json", "serde_json", "std::fs, BufWriter, BufReader", "the file system under /verif/.scratch"],
            stub: &["crash = truncation of the produced file to k bytes (in this configuration); the process-kill configuration is paramfile-shim"],
            assumptions: &[
                "a and b finite and positive; values from <= 15 significant digit decimals must round-trip exactly, other bit patterns within 1 ulp",
                "reference content of a dump = what the real dump_json writes into a clean directory",
            ],
        }
    }
}

fn shrink_pf(plan: &PfPlan) -> Vec<PfPlan> {
    let mut out = vec![];
    if plan.dumps.len() > 1 {
        for i in 0..plan.dumps.len() {
            let mut p = plan.clone();
            p.dumps.remove(i);
            out.push(p);
        }
    }
    // a single crash offset
    match &plan.crash_offsets {
        None => {
            for k in [-1i64, 0, 1, 2, 8, 16, 32, 48, 60] {
                let mut p = plan.clone();
                p.crash_offsets = Some(vec![k]);
                out.push(p);
            }
            let mut p = plan.clone();
            p.crash_offsets = Some(vec![]);
            out.push(p);
        }
        Some(v) if v.len() > 1 => {
            for c in shrink_vec(v) {
                let mut p = plan.clone();
                p.crash_offsets = Some(c);
                out.push(p);
            }
        }
        _ => {}
    }
    if plan.faults != IoFaults::default() {
        let mut p = plan.clone();
        p.faults = IoFaults::default();
        out.push(p);
    }
    if plan.enospc_at.is_some() {
        let mut p = plan.clone();
        p.enospc_at = None;
        out.push(p);
    }
    if plan.coarse_mtime {
        let mut p = plan.clone();
        p.coarse_mtime = false;
        out.push(p);
    }
    if plan.second_dir {
        let mut p = plan.clone();
        p.second_dir = false;
        out.push(p);
    }
    if plan.concurrent {
        let mut p = plan.clone();
        p.concurrent = false;
        out.push(p);
    }
    if plan.latin1_dir {
        let mut p = plan.clone();
        p.latin1_dir = false;
        out.push(p);
    }
    // simpler parameter values
    for (i, d) in plan.dumps.iter().enumerate() {
        let simple = PfParams { b_bits: 1.5f64.to_bits(), m: 4, a_bits: 20f64.to_bits(), q: 30, short_decimal: true, b_text: "1.5".into(), a_text: "20".into() };
        if *d != simple {
            let mut p = plan.clone();
            p.dumps[i] = simple;
            out.push(p);
        }
    }
    out
}

// ---------------------------------------------------------------------------------------------
// child side: `sketchsim paramchild dump <dir> <b_bits> <m> <a_bits> <q>` / `paramchild reload <dir>`

pub fn child_main(args: &[String]) -> i32 {
    match args.first().map(|s| s.as_str()) {
        Some("dump") => {
            let dir = PathBuf::from(&args[1]);
            let b = f64::from_bits(args[2].parse().unwrap());
            let m: u64 = args[3].parse().unwrap();
            let a = f64::from_bits(args[4].parse().unwrap());
            let q: u64 = args[5].parse().unwrap();
            match SetSketchParams::new(b, m, a, q).dump_json(&dir) {
                Ok(()) => {
                    println!("ok");
                    0
                }
                Err(_) => {
                    println!("err");
                    3
                }
            }
        }
        Some("reload") => {
            let dir = PathBuf::from(&args[1]);
            match SetSketchParams::reload_json(&dir) {
                Ok(p) => {
                    println!("ok {} {} {} {}", p.get_b().to_bits(), p.get_m(), p.get_a().to_bits(), p.get_q());
                    0
                }
                Err(_) => {
                    println!("err");
                    3
                }
            }
        }
        _ => 2,
    }
}

fn shim_path() -> PathBuf {
    let p = crate::verif_root().join("shim").join("simfs.so");
    if !p.exists() {
        crate::errln!("HARNESS-ERROR: {} missing (run ./check setup)", p.display());
        std::process::exit(2);
    }
    p
}

struct ChildOut {
    code: Option<i32>,
    stdout: String,
    fired: Vec<String>,
}

fn run_child(args: &[String], env: &[(String, String)]) -> ChildOut {
    let logd = Scratch::new("log");
    let log = logd.0.join("simfs.log");
    let mut c = Command::new(std::env::current_exe().unwrap());
    c.arg("paramchild").args(args);
    c.env("LD_PRELOAD", shim_path());
    c.env("SIMFS_LOG", &log);
    c.env_remove("RUST_BACKTRACE");
    for (k, v) in env {
        c.env(k, v);
    }
    let o = c.output().expect("harness: cannot start child");
    let fired = std::fs::read_to_string(&log).unwrap_or_default().lines().map(|l| l.to_string()).collect();
    ChildOut { code: o.status.code(), stdout: String::from_utf8_lossy(&o.stdout).to_string(), fired }
}

fn count_fired(ctx: &mut Ctx, fired: &[String]) {
    for l in fired {
        let name = match l.split_whitespace().next().unwrap_or("") {
            "kill-before-open" => "fault:kill-before-open",
            "kill-at" => "fault:kill-after-k-bytes",
            "short-write" => "fault:short-write",
            "short-read" => "fault:short-read",
            "eintr-write" => "fault:eintr-write",
            "eintr-read" => "fault:eintr-read",
            "enospc" => "fault:enospc",
            _ => "fault:other",
        };
        ctx.count(name);
    }
}

fn dump_args(dir: &Path, p: &PfParams) -> Vec<String> {
    vec!["dump".into(), dir.display().to_string(), p.b_bits.to_string(), p.m.to_string(), p.a_bits.to_string(), p.q.to_string()]
}

fn reload_child(ctx: &mut Ctx, dir: &Path, f: &IoFaults) -> Reload {
    let mut env = vec![];
    if let Some(n) = f.short_read {
        env.push(("SIMFS_SHORT_READ".to_string(), n.to_string()));
    }
    if let Some(n) = f.eintr_read {
        env.push(("SIMFS_EINTR_READ".to_string(), n.to_string()));
    }
    let o = run_child(&["reload".into(), dir.display().to_string()], &env);
    count_fired(ctx, &o.fired);
    match o.code {
        Some(0) => {
            let last = o.stdout.lines().rev().find(|l| !l.trim().is_empty()).unwrap_or("");
            let t: Vec<&str> = last.split_whitespace().collect();
            if t.len() == 5 && t[0] == "ok" {
                Reload::Ok(t[1].parse().unwrap(), t[2].parse().unwrap(), t[3].parse().unwrap(), t[4].parse().unwrap())
            } else {
                Reload::Panic(format!("child printed {:?}", o.stdout))
            }
        }
        Some(3) => Reload::Err,
        other => Reload::Panic(format!("reload child ended with status {:?}", other)),
    }
}

pub struct ParamFileShim;

impl Scenario for ParamFileShim {
    type Plan = PfPlan;
    fn name(&self) -> &'static str {
        "paramfile-shim"
    }
    fn generate(&self, rng: &mut Rng, _tier: Tier, _t: &str) -> PfPlan {
        let n = *rng.pick(&[1usize, 2, 2]);
        let dumps = (0..n).map(|_| gen_params(rng)).collect();
        let faults = IoFaults {
            short_write: if rng.chance(0.6) { Some(rng.range(1, 40) as u32) } else { None },
            eintr_write: if rng.chance(0.5) { Some(rng.range(1, 4) as u32) } else { None },
            short_read: if rng.chance(0.6) { Some(rng.range(1, 40) as u32) } else { None },
            eintr_read: if rng.chance(0.5) { Some(rng.range(1, 4) as u32) } else { None },
        };
        let enospc_at = if rng.chance(0.5) { Some(rng.range(0, 60) as u32) } else { None };
        PfPlan { dumps, faults, crash_offsets: None, enospc_at, coarse_mtime: false, second_dir: false, concurrent: false, latin1_dir: false }
    }
    fn execute(&self, plan: &PfPlan, ctx: &mut Ctx) -> Result<(), Violation> {
        let dir = Scratch::new("sh");
        let f = &plan.faults;
        let mut wenv = vec![];
        if let Some(n) = f.short_write {
            wenv.push(("SIMFS_SHORT_WRITE".to_string(), n.to_string()));
        }
        if let Some(n) = f.eintr_write {
            wenv.push(("SIMFS_EINTR_WRITE".to_string(), n.to_string()));
        }
        // missing file
        ctx.ev("reload-missing", 0);
        ctx.count("fault:missing-file");
        let r = reload_child(ctx, &dir.0, f);
        check_reload(ctx, "missing file (child process)", &r, None)?;

        let n = plan.dumps.len();
        let mut prev: Option<(Vec<u8>, &PfParams)> = None;
        for (i, p) in plan.dumps.iter().enumerate() {
            let e = reference_bytes(p);
            if i + 1 == n {
                // crash enumeration on the last dump, each experiment starting from the state after the previous dump
                let offsets: Vec<i64> = match &plan.crash_offsets {
                    Some(v) => v.clone(),
                    None => (-1..=e.len() as i64).collect(),
                };
                for k in offsets {
                    let k = k.clamp(-1, e.len() as i64);
                    match &prev {
                        Some((pe, _)) => std::fs::write(dir.file(), pe).expect("harness: restore"),
                        None => {
                            let _ = std::fs::remove_file(dir.file());
                        }
                    }
                    ctx.ev("crash-at", (k + 1) as u64);
                    let mut env = wenv.clone();
                    if k < 0 {
                        env.push(("SIMFS_KILL_BEFORE_OPEN".to_string(), "1".to_string()));
                    } else {
                        env.push(("SIMFS_KILL_AT".to_string(), k.to_string()));
                    }
                    let o = run_child(&dump_args(&dir.0, p), &env);
                    count_fired(ctx, &o.fired);
                    match o.code {
                        Some(137) => {}
                        Some(0) => ctx.count("crash-point-not-reached-dump-completed"),
                        other => {
                            crate::errln!("HARNESS-ERROR: dump child ended with status {:?} (crash point {})", other, k);
                            std::process::exit(2);
                        }
                    }
                    let content = std::fs::read(dir.file()).ok();
                    // classification of the durable content. A crash may leave: the old file untouched
                    // (crash before the file was opened, or an implementation that replaces atomically),
                    // the complete new file, or a proper prefix of the new file (torn write). Anything else
                    // (e.g. new bytes followed by a stale tail) is not a state a crash may leave.
                    let old = prev.as_ref().map(|(pe, _)| pe.clone());
                    let what = format!("process killed at crash point {} of {}", k, e.len());
                    let r = if (k + 1) % 2 == 0 { reload_child(ctx, &dir.0, f) } else { reload_inproc(&dir.0) };
                    match &content {
                        None => check_reload(ctx, &format!("{} (file missing)", what), &r, None)?,
                        Some(c) if *c == e => check_reload(ctx, &format!("{} (new file complete)", what), &r, Some(p))?,
                        Some(c) if Some(c) == old.as_ref() => {
                            check_reload(ctx, &format!("{} (old file intact)", what), &r, prev.as_ref().map(|(_, pp)| *pp))?
                        }
                        Some(c) if c.len() < e.len() && e[..c.len()] == c[..] => {
                            ctx.count("probe:torn-file-observed");
                            check_reload(ctx, &format!("{} (file is a {}-byte prefix)", what, c.len()), &r, None)?
                        }
                        Some(c) => {
                            ctx.check("C20", "durable-content-is-old-new-or-prefix", false, || {
                                format!(
                                    "{}: file holds {:?}: neither the old file, the new file {:?}, nor a prefix of it",
                                    what,
                                    String::from_utf8_lossy(c),
                                    String::from_utf8_lossy(&e)
                                )
                            })?;
                        }
                    }
                    ctx.check("C20", "durable-content-is-old-new-or-prefix", true, String::new)?;
                }
                // ENOSPC: only the reload side is covered by the property (file cut short => error)
                if let Some(at) = plan.enospc_at {
                    let at = (at as usize).min(e.len().saturating_sub(1));
                    let _ = std::fs::remove_file(dir.file());
                    ctx.ev("enospc-at", at as u64);
                    let mut env = wenv.clone();
                    env.push(("SIMFS_ENOSPC_AT".to_string(), at.to_string()));
                    let o = run_child(&dump_args(&dir.0, p), &env);
                    count_fired(ctx, &o.fired);
                    if o.code == Some(0) {
                        ctx.count("observation:dump-returned-ok-although-disk-full");
                    }
                    let content = std::fs::read(dir.file()).unwrap_or_default();
                    if content.len() < e.len() {
                        let r = reload_inproc(&dir.0);
                        check_reload(ctx, &format!("disk full after {} bytes", at), &r, None)?;
                    }
                }
            }
            // un-crashed dump under legal kernel behaviour (short writes, EINTR)
            ctx.ev("dump", e.len() as u64);
            ctx.sched.add(p.b_bits ^ p.a_bits.rotate_left(17) ^ p.m.rotate_left(31) ^ p.q.rotate_left(47));
            ctx.sched.add(f.short_write.unwrap_or(0) as u64 * 1000003 + f.eintr_write.unwrap_or(0) as u64 * 1009 + f.short_read.unwrap_or(0) as u64 * 31 + f.eintr_read.unwrap_or(0) as u64);
            if let Some((pe, _)) = &prev {
                std::fs::write(dir.file(), pe).expect("harness: restore");
                if pe.len() > e.len() {
                    ctx.count("fault:shorter-dump-over-longer-file");
                }
            } else {
                let _ = std::fs::remove_file(dir.file());
            }
            let o = run_child(&dump_args(&dir.0, p), &wenv);
            count_fired(ctx, &o.fired);
            ctx.check("C20", "dump-succeeds", o.code == Some(0), || format!("dump child ended with status {:?} under short writes / EINTR {:?}", o.code, f))?;
            let content = std::fs::read(dir.file()).unwrap_or_default();
            if content != e {
                ctx.count("observation:file-differs-from-dump-into-clean-directory");
            }
            ctx.ev("reload", 0);
            let r = reload_child(ctx, &dir.0, f);
            check_reload(ctx, "after complete dump (child, short reads / EINTR)", &r, Some(p))?;
            prev = Some((e, p));
        }
        ctx.nontrivial = true;
        Ok(())
    }
    fn shrink(&self, plan: &PfPlan) -> Vec<PfPlan> {
        shrink_pf(plan)
    }
    fn doc(&self) -> Doc {
        Doc {
            rule: "as paramfile, but every dump and half of the reloads run in child processes under the LD_PRELOAD shim: the dumping process is killed before open and after k bytes of the write stream for EVERY k in 0..=len (exhaustive per file), starting from the durable state left by the previous dump; short writes, short reads, EINTR on the n-th call and ENOSPC are injected; distinct = distinct (tuple sequence, fault plan) fingerprints",
            real: &["SetSketchParams::dump_json / reload_json in a separate process", "serde_json", "std::fs / BufWriter / BufReader", "libc, kernel, file system"],
            stub: &["results of open/write/read at the libc boundary (shim/simfs.c) according to the recorded plan"],
            assumptions: &[
                "a crash can leave any prefix of the write stream durable (torn write model); kill = _exit without destructors",
                "ENOSPC: dump_json's return value is only observed (the property covers the reload side)",
            ],
        }
    }
}

