//! Simulator core: scenario trait, seeded batch runner, minimiser, replay files,
//! known-findings matcher, evidence parts.

use crate::prng::{hash_str, mix, Fp, Rng};
use serde::de::DeserializeOwned;
use serde::{Deserialize, Serialize};
use serde_json::{json, Value};
use std::cell::RefCell;
use std::collections::{BTreeMap, HashSet};
use std::panic::{catch_unwind, AssertUnwindSafe};
use std::path::{Path, PathBuf};
use std::sync::atomic::{AtomicU64, AtomicUsize, Ordering};
use std::sync::Mutex;
use std::time::Instant;

/// The library prints diagnostics with println!. In `run` / `replay` mode fd 1 is pointed at /dev/null
/// and the harness writes through a duplicate of the original stdout.
pub static OUT_FD: std::sync::atomic::AtomicI32 = std::sync::atomic::AtomicI32::new(1);

pub static ERR_FD: std::sync::atomic::AtomicI32 = std::sync::atomic::AtomicI32::new(2);

pub fn silence_library_stdout() {
    unsafe {
        let saved = libc::dup(1);
        let saved_err = libc::dup(2);
        let null = libc::open(c"/dev/null".as_ptr(), libc::O_WRONLY);
        if saved >= 0 && saved_err >= 0 && null >= 0 {
            libc::dup2(null, 1);
            // the crate's MLE estimator logs every optimiser iteration to the terminal (stderr)
            libc::dup2(null, 2);
            libc::close(null);
            OUT_FD.store(saved, Ordering::SeqCst);
            ERR_FD.store(saved_err, Ordering::SeqCst);
        }
    }
}

pub fn err_write(s: &str) {
    let fd = ERR_FD.load(Ordering::SeqCst);
    let b = s.as_bytes();
    let mut off = 0;
    while off < b.len() {
        let r = unsafe { libc::write(fd, b[off..].as_ptr() as *const libc::c_void, b.len() - off) };
        if r <= 0 {
            break;
        }
        off += r as usize;
    }
}

#[macro_export]
macro_rules! errln {
    ($($arg:tt)*) => {
        $crate::core::err_write(&format!("{}\n", format!($($arg)*)))
    };
}

pub fn out_write(s: &str) {
    let fd = OUT_FD.load(Ordering::SeqCst);
    let b = s.as_bytes();
    let mut off = 0;
    while off < b.len() {
        let r = unsafe { libc::write(fd, b[off..].as_ptr() as *const libc::c_void, b.len() - off) };
        if r <= 0 {
            break;
        }
        off += r as usize;
    }
}

#[macro_export]
macro_rules! outln {
    ($($arg:tt)*) => {
        $crate::core::out_write(&format!("{}\n", format!($($arg)*)))
    };
}

#[derive(Clone, Copy, PartialEq, Eq, Debug)]
pub enum Tier {
    Quick,
    Thorough,
}
impl Tier {
    pub fn name(&self) -> &'static str {
        match self {
            Tier::Quick => "quick",
            Tier::Thorough => "thorough",
        }
    }
}

#[derive(Clone, Debug, Serialize, Deserialize)]
pub struct Violation {
    pub property: String,
    pub oracle: String,
    /// coarse, shrink-stable signature used by the known-findings file
    pub key: String,
    pub detail: String,
}

/// per-run context: target property (oracle filter), event counter = simulated time, reach counters, fingerprints
pub struct Ctx {
    pub target: String,
    pub events: u64,
    pub counters: BTreeMap<&'static str, u64>,
    /// fingerprint of the delivery schedule (event kinds and identities)
    pub sched: Fp,
    /// fingerprint of everything observable that the run produced (for the determinism self test)
    pub out: Fp,
    pub nontrivial: bool,
}

impl Ctx {
    pub fn new(target: &str) -> Ctx {
        Ctx {
            target: target.to_string(),
            events: 0,
            counters: BTreeMap::new(),
            sched: Fp::new(),
            out: Fp::new(),
            nontrivial: false,
        }
    }
    #[inline]
    pub fn ev(&mut self, kind: &'static str, a: u64) {
        self.events += 1;
        self.sched.add(hash_str(kind));
        self.sched.add(a);
        *self.counters.entry(kind).or_insert(0) += 1;
    }
    #[inline]
    pub fn count(&mut self, name: &'static str) {
        *self.counters.entry(name).or_insert(0) += 1;
    }
    #[inline]
    pub fn count_n(&mut self, name: &'static str, n: u64) {
        *self.counters.entry(name).or_insert(0) += n;
    }
    #[inline]
    pub fn wants(&self, prop: &str) -> bool {
        self.target == prop || self.target == "*"
    }
    /// records an oracle evaluation; returns Err when it failed and belongs to the target property
    #[inline]
    pub fn check<F: FnOnce() -> String>(
        &mut self,
        prop: &str,
        oracle: &'static str,
        ok: bool,
        detail: F,
    ) -> Result<(), Violation> {
        if !self.wants(prop) {
            return Ok(());
        }
        *self.counters.entry(oracle).or_insert(0) += 1;
        if ok {
            Ok(())
        } else {
            Err(Violation {
                property: prop.to_string(),
                oracle: oracle.to_string(),
                key: String::new(),
                detail: detail(),
            })
        }
    }
    pub fn check_key<F: FnOnce() -> String>(
        &mut self,
        prop: &str,
        oracle: &'static str,
        key: &str,
        ok: bool,
        detail: F,
    ) -> Result<(), Violation> {
        self.check(prop, oracle, ok, detail).map_err(|mut v| {
            v.key = key.to_string();
            v
        })
    }
}

pub struct Doc {
    pub rule: &'static str,
    pub real: &'static [&'static str],
    pub stub: &'static [&'static str],
    pub assumptions: &'static [&'static str],
}

pub trait Scenario: Sync {
    type Plan: Serialize + DeserializeOwned + Clone + Send;
    fn name(&self) -> &'static str;
    fn generate(&self, rng: &mut Rng, tier: Tier, target: &str) -> Self::Plan;
    fn execute(&self, plan: &Self::Plan, ctx: &mut Ctx) -> Result<(), Violation>;
    /// strictly simpler candidate plans, most aggressive first
    fn shrink(&self, plan: &Self::Plan) -> Vec<Self::Plan>;
    fn doc(&self) -> Doc;
    /// whether a report of the per-thread allocation tracker is a violation in this scenario (default: no)
    fn allocator_reports_are_verdicts(&self) -> bool {
        false
    }
}

thread_local! {
    static LAST_PANIC: RefCell<Option<String>> = const { RefCell::new(None) };
    static QUIET: RefCell<bool> = const { RefCell::new(false) };
}

pub fn install_panic_hook() {
    let default = std::panic::take_hook();
    std::panic::set_hook(Box::new(move |info| {
        let msg = if let Some(s) = info.payload().downcast_ref::<&str>() {
            s.to_string()
        } else if let Some(s) = info.payload().downcast_ref::<String>() {
            s.clone()
        } else {
            "<non-string panic>".to_string()
        };
        let loc = info
            .location()
            .map(|l| format!("{}:{}", l.file(), l.line()))
            .unwrap_or_default();
        let quiet = QUIET.with(|q| *q.borrow());
        LAST_PANIC.with(|p| *p.borrow_mut() = Some(format!("{} at {}", msg, loc)));
        if !quiet {
            // fd 2 may point at /dev/null (library noise): report through the saved descriptor as well
            err_write(&format!("harness thread panicked: {} at {}\n", msg, loc));
            default(info);
        }
    }));
}

/// runs f, turning a panic into Err(message)
pub fn caught<R, F: FnOnce() -> R>(f: F) -> Result<R, String> {
    QUIET.with(|q| *q.borrow_mut() = true);
    LAST_PANIC.with(|p| *p.borrow_mut() = None);
    let r = catch_unwind(AssertUnwindSafe(f));
    QUIET.with(|q| *q.borrow_mut() = false);
    match r {
        Ok(v) => Ok(v),
        Err(_) => Err(LAST_PANIC
            .with(|p| p.borrow_mut().take())
            .unwrap_or_else(|| "<panic>".to_string())),
    }
}

/// executes one plan under catch_unwind; an escaping panic is a violation of the target property
pub fn exec_plan<S: Scenario>(sc: &S, plan: &S::Plan, target: &str) -> (Option<Violation>, Ctx) {
    let mut ctx = Ctx::new(target);
    crate::alloc_track::arm();
    let r = caught(|| sc.execute(plan, &mut ctx));
    let mem = crate::alloc_track::disarm();
    ctx.count_n("allocator:tracked-allocations", mem.tracked_allocs);
    let v = match r {
        // Only the scenario whose workload is known to stay in one thread (the Sig workload of C18) turns an
        // allocator anomaly into a verdict: the per-thread tracker cannot follow blocks that cross threads, and a
        // library that legitimately starts threads of its own would otherwise raise a false "layout mismatch".
        // Everywhere else the tracker stays armed as a safety net (a double free is recorded instead of aborting
        // the harness) and its report is only counted.
        Ok(Ok(())) if !mem.clean() && !sc.allocator_reports_are_verdicts() => {
            ctx.count("observation:allocator-anomaly-not-a-verdict-here");
            None
        }
        Ok(Ok(())) if !mem.clean() => Some(Violation {
            property: if target == "*" { "?".into() } else { target.to_string() },
            oracle: "invalid-free".into(),
            key: String::new(),
            detail: format!("the tracking allocator recorded {} second free(s) and {} layout mismatch(es): {}", mem.double_free, mem.layout_mismatch, mem.first),
        }),
        Ok(Ok(())) => None,
        Ok(Err(v)) => Some(v),
        Err(msg) => Some(Violation {
            property: if target == "*" { "?".into() } else { target.to_string() },
            oracle: "unexpected-panic".into(),
            key: String::new(),
            detail: msg,
        }),
    };
    (v, ctx)
}

#[derive(Clone)]
pub struct BatchOpts {
    pub seed: u64,
    pub runs: usize,
    pub workers: usize,
    pub tier: Tier,
    pub target: String,
    pub log: Option<PathBuf>,
    pub replay_dir: PathBuf,
    pub known_file: PathBuf,
    pub shrink_budget: usize,
    pub part: Option<PathBuf>,
}

#[derive(Serialize, Deserialize, Clone)]
pub struct ReplayFile {
    pub property: String,
    pub scenario: String,
    pub oracle: String,
    pub key: String,
    pub detail: String,
    pub verif_seed: u64,
    pub run_index: usize,
    pub run_seed: u64,
    pub shrink_steps: usize,
    pub plan: Value,
    pub original_plan: Value,
    /// which simulator binary produced it: "sim" or "rayonstub"
    #[serde(default = "default_binary")]
    pub binary: String,
    /// tier of the batch (the generators differ per tier)
    #[serde(default)]
    pub tier: String,
    /// the failure only shows after the preceding runs of its batch have executed in the same process
    /// (state leaking between runs through process-wide statics or thread-locals of the library):
    /// replay then re-executes runs 0..run_index first
    #[serde(default)]
    pub needs_history: bool,
}

fn default_binary() -> String {
    "sim".into()
}

pub fn this_binary() -> String {
    if cfg!(feature = "rayonstub") { "rayonstub".into() } else { "sim".into() }
}

struct RunRecord {
    events: u64,
    sched: u64,
    out: u64,
    nontrivial: bool,
    counters: BTreeMap<&'static str, u64>,
    violation: Option<Violation>,
}

pub struct Known {
    pub entries: Vec<(String, String, String, String)>, // property, oracle, key, text
}
impl Known {
    pub fn load(path: &Path) -> Known {
        let mut entries = vec![];
        if let Ok(s) = std::fs::read_to_string(path) {
            for line in s.lines() {
                let line = line.trim();
                if !line.starts_with("known:") {
                    continue;
                }
                let mut prop = String::new();
                let mut oracle = String::new();
                let mut key = String::new();
                let mut rest = vec![];
                for tok in line["known:".len()..].split_whitespace() {
                    if let Some(v) = tok.strip_prefix("property=") {
                        prop = v.into();
                    } else if let Some(v) = tok.strip_prefix("oracle=") {
                        oracle = v.into();
                    } else if let Some(v) = tok.strip_prefix("key=") {
                        key = v.into();
                    } else {
                        rest.push(tok);
                    }
                }
                entries.push((prop, oracle, key, rest.join(" ")));
            }
        }
        Known { entries }
    }
    pub fn matches(&self, v: &Violation) -> Option<String> {
        for (p, o, k, t) in &self.entries {
            if *p == v.property && *o == v.oracle && *k == v.key && !k.is_empty() {
                return Some(format!("oracle={} key={} {}", o, k, t));
            }
        }
        None
    }
}

pub struct BatchOutcome {
    pub violations: usize,
    pub known: usize,
}

pub fn run_seed(seed: u64, scenario: &str, target: &str, i: usize) -> u64 {
    mix(&[seed, hash_str(scenario), hash_str(target), i as u64])
}

pub fn run_batch<S: Scenario>(sc: &S, opts: &BatchOpts) -> BatchOutcome {
    let t0 = Instant::now();
    let n = opts.runs;
    let next = AtomicUsize::new(0);
    let records: Mutex<Vec<Option<RunRecord>>> = Mutex::new((0..n).map(|_| None).collect());
    // watchdog state: per worker (run index + 1, start in ms since t0)
    let nw = opts.workers.max(1);
    let current: Vec<(AtomicUsize, AtomicU64)> =
        (0..nw).map(|_| (AtomicUsize::new(0), AtomicU64::new(0))).collect();
    let done = AtomicUsize::new(0);
    let nfail = AtomicUsize::new(0);
    let known_early = Known::load(&opts.known_file);

    std::thread::scope(|scope| {
        for w in 0..nw {
            let next = &next;
            let records = &records;
            let current = &current;
            let done = &done;
            let nfail = &nfail;
            let known_early = &known_early;
            let opts = opts;
            std::thread::Builder::new()
                .stack_size(64 << 20)
                .spawn_scoped(scope, move || loop {
                    let i = next.fetch_add(1, Ordering::Relaxed);
                    if i >= n || nfail.load(Ordering::Relaxed) >= 50 {
                        break;
                    }
                    current[w].1.store(t0.elapsed().as_millis() as u64, Ordering::Relaxed);
                    current[w].0.store(i + 1, Ordering::Relaxed);
                    let rs = run_seed(opts.seed, sc.name(), &opts.target, i);
                    let mut rng = Rng::new(rs);
                    let plan = sc.generate(&mut rng, opts.tier, &opts.target);
                    let (v, ctx) = exec_plan(sc, &plan, &opts.target);
                    current[w].0.store(0, Ordering::Relaxed);
                    if let Some(v) = &v {
                        // runs that reproduce a listed known finding do not use up the failure budget
                        if known_early.matches(v).is_none() {
                            nfail.fetch_add(1, Ordering::Relaxed);
                        }
                    }
                    let rec = RunRecord {
                        events: ctx.events,
                        sched: ctx.sched.0,
                        out: ctx.out.0,
                        nontrivial: ctx.nontrivial,
                        counters: ctx.counters,
                        violation: v,
                    };
                    records.lock().unwrap()[i] = Some(rec);
                    done.fetch_add(1, Ordering::Relaxed);
                })
                .unwrap();
        }
        // watchdog: a run that takes more than WATCHDOG_S seconds is reported as no-progress
        let watchdog_s: u64 = std::env::var("VERIF_WATCHDOG_S")
            .ok()
            .and_then(|s| s.parse().ok())
            .unwrap_or(60);
        let current = &current;
        let next = &next;
        let nfail = &nfail;
        let opts = opts;
        scope.spawn(move || loop {
            std::thread::sleep(std::time::Duration::from_millis(200));
            let now = t0.elapsed().as_millis() as u64;
            let mut active = false;
            for c in current.iter() {
                let idx = c.0.load(Ordering::Relaxed);
                if idx > 0 {
                    active = true;
                    let st = c.1.load(Ordering::Relaxed);
                    if now.saturating_sub(st) > watchdog_s * 1000 {
                        let i = idx - 1;
                        let rs = run_seed(opts.seed, sc.name(), &opts.target, i);
                        let mut rng = Rng::new(rs);
                        let plan = sc.generate(&mut rng, opts.tier, &opts.target);
                        let pv = serde_json::to_value(&plan).unwrap();
                        let rf = ReplayFile {
                            property: opts.target.clone(),
                            scenario: sc.name().into(),
                            oracle: "no-progress".into(),
                            key: String::new(),
                            detail: format!("run did not finish within {} s", watchdog_s),
                            verif_seed: opts.seed,
                            run_index: i,
                            run_seed: rs,
                            shrink_steps: 0,
                            plan: pv.clone(),
                            original_plan: pv,
                            binary: this_binary(),
                            tier: opts.tier.name().into(),
                            needs_history: false,
                        };
                        let path = write_replay(&opts.replay_dir, &rf);
                        outln!(
                            "VIOLATION property={} replay={}",
                            opts.target,
                            path.display()
                        );
                        outln!("  oracle=no-progress scenario={} run={}", sc.name(), i);
                        if let Some(part) = &opts.part {
                            let d = sc.doc();
                            let pj = json!({"scenario": sc.name(), "property": opts.target, "tier": opts.tier.name(), "seed": opts.seed,
                                "evaluations": i + 1, "distinct_nontrivial": 0, "distinct_schedules": 0, "events": 0, "counters": {},
                                "rule": d.rule, "real": d.real, "stub": d.stub, "assumptions": d.assumptions,
                                "samples": [{"scenario": sc.name(), "run": i, "run_seed": rs, "note": "run did not finish (no-progress violation)"}],
                                "wall_s": t0.elapsed().as_secs_f64(), "runs_per_hour": 0, "violations": 1, "known_findings": 0, "reported": [], "workers": nw});
                            let _ = std::fs::write(part, serde_json::to_string_pretty(&pj).unwrap());
                        }
                        std::process::exit(1);
                    }
                }
            }
            if !active && next.load(Ordering::Relaxed) >= n {
                break;
            }
            if nfail.load(Ordering::Relaxed) >= 50 && !active {
                break;
            }
        });
    });

    let records = records.into_inner().unwrap();
    // aggregate in run-index order (independent of worker count)
    let mut evaluations = 0usize;
    let mut events = 0u64;
    let mut counters: BTreeMap<&'static str, u64> = BTreeMap::new();
    let mut distinct: HashSet<u64> = HashSet::new();
    let mut distinct_all: HashSet<u64> = HashSet::new();
    let mut logbuf = String::new();
    let mut failing: Vec<(usize, Violation)> = vec![];
    for (i, r) in records.iter().enumerate() {
        let Some(r) = r else { continue };
        evaluations += 1;
        events += r.events;
        for (k, v) in &r.counters {
            *counters.entry(k).or_insert(0) += v;
        }
        distinct_all.insert(r.sched);
        if r.nontrivial {
            distinct.insert(r.sched);
        }
        if opts.log.is_some() {
            logbuf.push_str(&format!(
                "{} {:016x} {:016x} {} {}\n",
                i,
                r.sched,
                r.out,
                r.events,
                r.violation
                    .as_ref()
                    .map(|v| format!("{}/{}", v.oracle, v.key))
                    .unwrap_or_else(|| "ok".into())
            ));
        }
        if let Some(v) = &r.violation {
            failing.push((i, v.clone()));
        }
    }
    if let Some(p) = &opts.log {
        std::fs::write(p, logbuf).expect("write log");
    }

    // triage: group by (property, oracle, key); minimise the first of each group
    let known = Known::load(&opts.known_file);
    let mut seen: Vec<(String, String, String)> = vec![];
    let mut n_viol = 0usize;
    let mut n_known = 0usize;
    let mut reported: Vec<Value> = vec![];
    for (i, v) in &failing {
        let g = (v.property.clone(), v.oracle.clone(), v.key.clone());
        if seen.contains(&g) {
            continue;
        }
        seen.push(g);
        if seen.len() > 6 {
            break;
        }
        let rs = run_seed(opts.seed, sc.name(), &opts.target, *i);
        let mut rng = Rng::new(rs);
        let plan0 = sc.generate(&mut rng, opts.tier, &opts.target);
        let (plan, vmin, steps) = minimise(sc, &plan0, v, &opts.target, opts.shrink_budget);
        if let Some(text) = known.matches(&vmin) {
            outln!("KNOWN-FINDING: property={} {}", vmin.property, text);
            n_known += 1;
            reported.push(json!({"known": true, "oracle": vmin.oracle, "key": vmin.key}));
            continue;
        }
        let rf = ReplayFile {
            property: vmin.property.clone(),
            scenario: sc.name().into(),
            oracle: vmin.oracle.clone(),
            key: vmin.key.clone(),
            detail: vmin.detail.clone(),
            verif_seed: opts.seed,
            run_index: *i,
            run_seed: rs,
            shrink_steps: steps,
            plan: serde_json::to_value(&plan).unwrap(),
            original_plan: serde_json::to_value(&plan0).unwrap(),
            binary: this_binary(),
            tier: opts.tier.name().into(),
            needs_history: false,
        };
        let mut rf = rf;
        let path = write_replay(&opts.replay_dir, &rf);
        // re-run the minimised file in a fresh process
        let fresh = std::process::Command::new(std::env::current_exe().unwrap())
            .arg("replay")
            .arg(&path)
            .output();
        let mut reproduced = match &fresh {
            Ok(o) => {
                o.status.code() == Some(1)
                    && String::from_utf8_lossy(&o.stdout).contains("VIOLATION")
            }
            Err(_) => false,
        };
        let mut how = "reproduced";
        if !reproduced && *i > 0 {
            // maybe the failing state was built up by the earlier runs of this batch: replay them first
            rf.needs_history = true;
            let hpath = write_replay(&opts.replay_dir, &rf);
            let again = std::process::Command::new(std::env::current_exe().unwrap()).arg("replay").arg(&hpath).output();
            reproduced = match &again {
                Ok(o) => o.status.code() == Some(1) && String::from_utf8_lossy(&o.stdout).contains("VIOLATION"),
                Err(_) => false,
            };
            if reproduced {
                how = "reproduced-after-replaying-the-batch-history";
            } else {
                rf.needs_history = false;
                write_replay(&opts.replay_dir, &rf);
            }
        }
        outln!("VIOLATION property={} replay={}", vmin.property, path.display());
        outln!(
            "  scenario={} oracle={} key={} run={} run_seed={} shrink_steps={} fresh_process_replay={}",
            sc.name(),
            vmin.oracle,
            vmin.key,
            i,
            rs,
            steps,
            if reproduced { how } else { "NOT-reproduced" }
        );
        outln!("  detail: {}", truncate(&vmin.detail, 600));
        n_viol += 1;
        reported.push(json!({"known": false, "oracle": vmin.oracle, "key": vmin.key, "replay": path.display().to_string(), "reproduced": reproduced}));
    }

    let wall = t0.elapsed().as_secs_f64();
    if let Some(part) = &opts.part {
        // three actual plans as samples (first, middle, last run)
        let mut samples = vec![];
        for &i in &[0usize, n / 2, n.saturating_sub(1)] {
            if i < n {
                let rs = run_seed(opts.seed, sc.name(), &opts.target, i);
                let mut rng = Rng::new(rs);
                let plan = sc.generate(&mut rng, opts.tier, &opts.target);
                let mut v = serde_json::to_value(&plan).unwrap();
                shorten(&mut v);
                samples.push(json!({"scenario": sc.name(), "run": i, "run_seed": rs, "plan": v}));
            }
        }
        let d = sc.doc();
        let cm: BTreeMap<String, u64> = counters.iter().map(|(k, v)| (k.to_string(), *v)).collect();
        let part_json = json!({
            "scenario": sc.name(),
            "property": opts.target,
            "tier": opts.tier.name(),
            "seed": opts.seed,
            "evaluations": evaluations,
            "distinct_nontrivial": distinct.len(),
            "distinct_schedules": distinct_all.len(),
            "events": events,
            "counters": cm,
            "rule": d.rule,
            "real": d.real,
            "stub": d.stub,
            "assumptions": d.assumptions,
            "samples": samples,
            "wall_s": wall,
            "runs_per_hour": if wall > 0.0 { (evaluations as f64 / wall * 3600.0) as u64 } else { 0 },
            "violations": n_viol,
            "known_findings": n_known,
            "reported": reported,
            "workers": nw,
        });
        std::fs::write(part, serde_json::to_string_pretty(&part_json).unwrap()).expect("write part");
    }
    outln!(
        "[{}:{}] runs={} events={} distinct_nontrivial={} violations={} known={} wall={:.1}s",
        opts.target,
        sc.name(),
        evaluations,
        events,
        distinct.len(),
        n_viol,
        n_known,
        wall
    );
    BatchOutcome { violations: n_viol, known: n_known }
}

fn truncate(s: &str, n: usize) -> String {
    if s.len() <= n {
        s.to_string()
    } else {
        let mut e = n;
        while !s.is_char_boundary(e) {
            e -= 1;
        }
        format!("{}…", &s[..e])
    }
}

/// cut long arrays in sample plans so evidence files stay readable
fn shorten(v: &mut Value) {
    match v {
        Value::Array(a) => {
            if a.len() > 24 {
                let n = a.len();
                a.truncate(24);
                a.push(Value::String(format!("… {} more", n - 24)));
            }
            for x in a.iter_mut() {
                shorten(x);
            }
        }
        Value::Object(o) => {
            for (_, x) in o.iter_mut() {
                shorten(x);
            }
        }
        _ => {}
    }
}

pub fn write_replay(dir: &Path, rf: &ReplayFile) -> PathBuf {
    let _ = std::fs::create_dir_all(dir);
    let path = dir.join(format!(
        "{}-{}-{}-{}.json",
        rf.property, rf.scenario, rf.oracle, rf.run_seed
    ));
    std::fs::write(&path, serde_json::to_string_pretty(rf).unwrap()).expect("write replay");
    path
}

/// greedy minimisation: accept any simpler candidate that fails the same (property, oracle)
pub fn minimise<S: Scenario>(
    sc: &S,
    plan0: &S::Plan,
    v0: &Violation,
    target: &str,
    budget: usize,
) -> (S::Plan, Violation, usize) {
    let mut plan = plan0.clone();
    let mut v = v0.clone();
    let mut execs = 0usize;
    let mut steps = 0usize;
    let t0 = Instant::now();
    'outer: loop {
        let cands = sc.shrink(&plan);
        for c in cands {
            if execs >= budget || t0.elapsed().as_secs() > 120 {
                break 'outer;
            }
            execs += 1;
            let (cv, _) = exec_plan(sc, &c, target);
            if let Some(cv) = cv {
                if cv.property == v0.property && cv.oracle == v0.oracle {
                    plan = c;
                    v = cv;
                    steps += 1;
                    continue 'outer;
                }
            }
        }
        break;
    }
    (plan, v, steps)
}

/// replay of a file: returns process exit code
pub fn replay<S: Scenario>(sc: &S, rf: &ReplayFile, known_file: &Path, path: &Path) -> i32 {
    let plan: S::Plan = match serde_json::from_value(rf.plan.clone()) {
        Ok(p) => p,
        Err(e) => {
            errln!("replay: cannot decode plan: {}", e);
            return 2;
        }
    };
    if rf.needs_history {
        let tier = if rf.tier == "thorough" { Tier::Thorough } else { Tier::Quick };
        outln!("replay: re-executing runs 0..{} of the batch first (state shared between runs)", rf.run_index + 64);
        // runs with a slightly higher index may have executed earlier in time on other workers
        for j in (0..rf.run_index + 64).filter(|j| *j != rf.run_index) {
            let rs = run_seed(rf.verif_seed, sc.name(), &rf.property, j);
            let mut rng = Rng::new(rs);
            let p = sc.generate(&mut rng, tier, &rf.property);
            let _ = exec_plan(sc, &p, &rf.property);
        }
    }
    let (v, ctx) = exec_plan(sc, &plan, &rf.property);
    match v {
        None => {
            outln!(
                "replay: no violation (events={} sched={:016x} out={:016x})",
                ctx.events, ctx.sched.0, ctx.out.0
            );
            0
        }
        Some(v) => {
            let known = Known::load(known_file);
            if let Some(t) = known.matches(&v) {
                outln!("KNOWN-FINDING: property={} {}", v.property, t);
                return 0;
            }
            outln!("VIOLATION property={} replay={}", v.property, path.display());
            outln!("  scenario={} oracle={} key={}", sc.name(), v.oracle, v.key);
            outln!("  detail: {}", truncate(&v.detail, 2000));
            1
        }
    }
}

// ---------- generic shrink helpers ----------

/// candidates obtained from a vector by removing chunks (halves, quarters, ..., single elements)
pub fn shrink_vec<T: Clone>(v: &[T]) -> Vec<Vec<T>> {
    let mut out = vec![];
    let n = v.len();
    if n == 0 {
        return out;
    }
    let mut chunk = n.div_ceil(2);
    loop {
        let mut start = 0;
        while start < n {
            let end = (start + chunk).min(n);
            let mut c = Vec::with_capacity(n - (end - start));
            c.extend_from_slice(&v[..start]);
            c.extend_from_slice(&v[end..]);
            out.push(c);
            start = end;
        }
        if chunk == 1 || out.len() > 64 {
            break;
        }
        chunk = chunk.div_ceil(2);
        if chunk == 0 {
            break;
        }
    }
    out
}

pub fn bits(x: f64) -> u64 {
    x.to_bits()
}
