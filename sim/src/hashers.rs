//! Hashers used as the configuration swarm for the `H` type parameter of the sketchers.
//! Fnv / XxHash / the crate's own NoHashHasher are real; SimHasher is a keyed byte mixer
//! (no statistics are ever drawn from it, it only varies which numbers come out).

use crate::prng::splitmix;
use std::hash::Hasher;

pub struct SimHasher<const K: u64>(u64);
impl<const K: u64> Default for SimHasher<K> {
    fn default() -> Self {
        SimHasher(0xcbf2_9ce4_8422_2325 ^ K)
    }
}
impl<const K: u64> Hasher for SimHasher<K> {
    fn write(&mut self, bytes: &[u8]) {
        for b in bytes {
            self.0 = (self.0 ^ (*b as u64)).wrapping_mul(0x1000_0000_01b3);
        }
    }
    fn finish(&self) -> u64 {
        let mut x = self.0 ^ K.rotate_left(17);
        splitmix(&mut x)
    }
}

/// 32 bit output (for integer sketches of 32 bits)
pub struct Sim32<const K: u64>(u64);
impl<const K: u64> Default for Sim32<K> {
    fn default() -> Self {
        Sim32(0xcbf2_9ce4_8422_2325 ^ K)
    }
}
impl<const K: u64> Hasher for Sim32<K> {
    fn write(&mut self, bytes: &[u8]) {
        for b in bytes {
            self.0 = (self.0 ^ (*b as u64)).wrapping_mul(0x1000_0000_01b3);
        }
    }
    fn finish(&self) -> u64 {
        let mut x = self.0 ^ K.rotate_left(17);
        splitmix(&mut x) >> 32
    }
}

pub type SimA = SimHasher<0x1234_5678_9abc_def1>;
pub type SimB = SimHasher<0x0f1e_2d3c_4b5a_6978>;
pub type Sim32A = Sim32<0x1234_5678_9abc_def1>;

/// "already hashed" input: the hash of an integer is the integer itself (low bits carry the differences)
#[derive(Default)]
pub struct IdentHasher(u64);
impl Hasher for IdentHasher {
    fn write(&mut self, bytes: &[u8]) {
        for b in bytes {
            self.0 = (self.0 << 8) | (*b as u64);
        }
    }
    fn write_u64(&mut self, i: u64) {
        self.0 = i;
    }
    fn write_u32(&mut self, i: u32) {
        self.0 = i as u64;
    }
    fn write_usize(&mut self, i: usize) {
        self.0 = i as u64;
    }
    fn finish(&self) -> u64 {
        self.0
    }
}
