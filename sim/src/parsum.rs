//! Seam for the reduction order of the parallel cardinality estimator (C06).
//! Under the `rayonstub` feature rayon is the seeded stub and the split tree is the PRNG's
//! choice; otherwise real rayon pools of several sizes are used (order observed, not controlled;
//! only the order-free rounding bound is asserted there).

use crate::core::Ctx;

#[cfg(feature = "rayonstub")]
pub fn with_schedule<R: Send, F: FnOnce() -> R + Send>(seed: u64, f: F) -> R {
    rayon::verif_set_seed(seed);
    f()
}

#[cfg(feature = "rayonstub")]
pub fn arm(ctx: &mut Ctx) {
    rayon::verif_set_seed(ctx.sched.0 ^ ctx.events);
    ctx.count("fault:reduction-tree-seeded");
}

#[cfg(feature = "rayonstub")]
pub fn arm_seed(ctx: &mut Ctx, _seed: u64) {
    ctx.count("fault:reduction-tree-seeded");
}

#[cfg(feature = "rayonstub")]
pub fn deterministic() -> bool {
    true
}

#[cfg(not(feature = "rayonstub"))]
mod real {
    use std::sync::OnceLock;
    pub static POOLS: OnceLock<Vec<rayon::ThreadPool>> = OnceLock::new();
    pub const SIZES: [usize; 6] = [1, 2, 3, 5, 8, 16];
    pub fn pools() -> &'static Vec<rayon::ThreadPool> {
        POOLS.get_or_init(|| {
            SIZES
                .iter()
                .map(|n| rayon::ThreadPoolBuilder::new().num_threads(*n).build().expect("rayon pool"))
                .collect()
        })
    }
}

#[cfg(not(feature = "rayonstub"))]
pub fn with_schedule<R: Send, F: FnOnce() -> R + Send>(seed: u64, f: F) -> R {
    // real thread pool: blocks cross threads, the per-thread allocation tracker must be off
    let _ = crate::alloc_track::disarm();
    let p = &real::pools()[(seed % real::SIZES.len() as u64) as usize];
    p.install(f)
}

#[cfg(not(feature = "rayonstub"))]
pub fn arm(ctx: &mut Ctx) {
    let _ = crate::alloc_track::disarm();
    ctx.count("fault:real-rayon-global-pool");
}

#[cfg(not(feature = "rayonstub"))]
pub fn arm_seed(ctx: &mut Ctx, seed: u64) {
    const NAMES: [&str; 6] = [
        "fault:real-rayon-pool-1",
        "fault:real-rayon-pool-2",
        "fault:real-rayon-pool-3",
        "fault:real-rayon-pool-5",
        "fault:real-rayon-pool-8",
        "fault:real-rayon-pool-16",
    ];
    ctx.count(NAMES[(seed % 6) as usize]);
}

#[cfg(not(feature = "rayonstub"))]
pub fn deterministic() -> bool {
    false
}
