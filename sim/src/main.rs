//! sketchsim — deterministic simulation harness for probminhash (see /verif/DESIGN.md)

mod alloc_track;
mod core;
mod hashers;
mod nodes;
mod parsum;
mod prng;
mod sc_dens;
mod sc_gossip;
mod sc_ordseq;
mod sc_paramfile;
mod sc_replicas;
mod sc_restart;
mod sc_sig;
mod sc_small;
mod sc_stream;
mod sc_wstream;

use crate::core::*;
use std::path::PathBuf;

#[global_allocator]
static GLOBAL: alloc_track::TrackAlloc = alloc_track::TrackAlloc;

fn usage() -> ! {
    eprintln!(
        "usage:
  sketchsim run --prop <ID> --scenario <name> --tier quick|thorough --runs <n> [--seed <n>] [--workers <n>] [--part <file>] [--log <file>]
  sketchsim replay <file>
  sketchsim list"
    );
    std::process::exit(2)
}

macro_rules! scenarios {
    ($m:ident, $name:expr) => {
        match $name {
            "stream" => $m!(sc_stream::Stream),
            "replicas" => $m!(sc_replicas::Replicas),
            "restart" => $m!(sc_restart::Restart),
            "tracker" => $m!(sc_small::TrackerSc),
            "shuffle" => $m!(sc_small::ShuffleSc),
            "ordseq" => $m!(sc_ordseq::OrdSeq),
            "sig" => $m!(sc_sig::SigSc),
            "wstream" => $m!(sc_wstream::WStream),
            "dens" => $m!(sc_dens::Dens),
            "gossip" => $m!(sc_gossip::Gossip),
            "joins" => $m!(sc_gossip::Joins),
            "parsum" => $m!(sc_gossip::Parsum),
            "paramfile" => $m!(sc_paramfile::ParamFile),
            "paramfile-shim" => $m!(sc_paramfile::ParamFileShim),
            other => {
                eprintln!("unknown scenario {}", other);
                std::process::exit(2)
            }
        }
    };
}

pub fn verif_root() -> PathBuf {
    std::env::var("VERIF_ROOT").map(PathBuf::from).unwrap_or_else(|_| PathBuf::from("/verif"))
}

fn main() {
    install_panic_hook();
    let args: Vec<String> = std::env::args().collect();
    if args.len() < 2 {
        usage();
    }
    match args[1].as_str() {
        "replica" => {
            std::process::exit(sc_replicas::replica_child_main(args.get(2).map(|s| s.as_str()).unwrap_or(""), args.get(3).and_then(|s| s.parse().ok()).unwrap_or(0)));
        }
        "paramchild" => {
            std::process::exit(sc_paramfile::child_main(&args[2..]));
        }
        "run" => {
            silence_library_stdout();
            let mut prop = String::new();
            let mut scenario = String::new();
            let mut tier = Tier::Quick;
            let mut runs = 1000usize;
            let mut seed: u64 = std::env::var("VERIF_SEED")
                .ok()
                .and_then(|s| s.parse().ok())
                .unwrap_or(20261003);
            let mut workers = std::thread::available_parallelism().map(|n| n.get()).unwrap_or(4);
            let mut part = None;
            let mut log = None;
            let mut i = 2;
            while i < args.len() {
                let a = args[i].as_str();
                let v = args.get(i + 1).cloned().unwrap_or_default();
                match a {
                    "--prop" => prop = v,
                    "--scenario" => scenario = v,
                    "--tier" => tier = if v == "thorough" { Tier::Thorough } else { Tier::Quick },
                    "--runs" => runs = v.parse().expect("runs"),
                    "--seed" => seed = v.parse().expect("seed"),
                    "--workers" => workers = v.parse().expect("workers"),
                    "--part" => part = Some(PathBuf::from(v)),
                    "--log" => log = Some(PathBuf::from(v)),
                    _ => usage(),
                }
                i += 2;
            }
            if prop.is_empty() || scenario.is_empty() {
                usage();
            }
            let root = verif_root();
            let opts = BatchOpts {
                seed,
                runs,
                workers,
                tier,
                target: prop,
                log,
                replay_dir: root.join("replays"),
                known_file: root.join("KNOWN_FINDINGS.txt"),
                shrink_budget: 3000,
                part,
            };
            macro_rules! go {
                ($s:expr) => {
                    run_batch(&$s, &opts)
                };
            }
            let out = scenarios!(go, scenario.as_str());
            std::process::exit(if out.violations > 0 { 1 } else { 0 });
        }
        "replay" => {
            silence_library_stdout();
            let path = PathBuf::from(args.get(2).cloned().unwrap_or_else(|| usage()));
            let text = match std::fs::read_to_string(&path) {
                Ok(t) => t,
                Err(e) => {
                    eprintln!("cannot read {}: {}", path.display(), e);
                    std::process::exit(2)
                }
            };
            let rf: ReplayFile = match serde_json::from_str(&text) {
                Ok(r) => r,
                Err(e) => {
                    eprintln!("cannot parse {}: {}", path.display(), e);
                    std::process::exit(2)
                }
            };
            let known = verif_root().join("KNOWN_FINDINGS.txt");
            macro_rules! go {
                ($s:expr) => {
                    replay(&$s, &rf, &known, &path)
                };
            }
            let code = scenarios!(go, rf.scenario.as_str());
            std::process::exit(code);
        }
        _ => usage(),
    }
}
