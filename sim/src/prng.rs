//! The harness' own generator (SplitMix64 seeding xoshiro256**). Deliberately not the `rand`
//! crate: a dependency upgrade must never change what a seed means.

#[inline]
pub fn splitmix(x: &mut u64) -> u64 {
    *x = x.wrapping_add(0x9E37_79B9_7F4A_7C15);
    let mut z = *x;
    z = (z ^ (z >> 30)).wrapping_mul(0xBF58_476D_1CE4_E5B9);
    z = (z ^ (z >> 27)).wrapping_mul(0x94D0_49BB_1331_11EB);
    z ^ (z >> 31)
}

/// order dependent mixing of words into one seed
pub fn mix(words: &[u64]) -> u64 {
    let mut s = 0x243F_6A88_85A3_08D3u64;
    for w in words {
        s ^= *w;
        let _ = splitmix(&mut s);
        s = s.rotate_left(23) ^ splitmix(&mut s);
    }
    s
}

pub fn hash_str(s: &str) -> u64 {
    let mut h = 0xcbf2_9ce4_8422_2325u64;
    for b in s.bytes() {
        h ^= b as u64;
        h = h.wrapping_mul(0x1000_0000_01b3);
    }
    h
}

#[derive(Clone, Debug)]
pub struct Rng {
    s: [u64; 4],
}

impl Rng {
    pub fn new(seed: u64) -> Rng {
        let mut x = seed;
        let s = [
            splitmix(&mut x),
            splitmix(&mut x),
            splitmix(&mut x),
            splitmix(&mut x),
        ];
        Rng { s }
    }
    #[inline]
    pub fn u64(&mut self) -> u64 {
        let r = self.s[1].wrapping_mul(5).rotate_left(7).wrapping_mul(9);
        let t = self.s[1] << 17;
        self.s[2] ^= self.s[0];
        self.s[3] ^= self.s[1];
        self.s[1] ^= self.s[2];
        self.s[0] ^= self.s[3];
        self.s[2] ^= t;
        self.s[3] = self.s[3].rotate_left(45);
        r
    }
    /// uniform in 0..n (n > 0)
    #[inline]
    pub fn below(&mut self, n: u64) -> u64 {
        debug_assert!(n > 0);
        // multiply-shift, bias negligible and irrelevant for a schedule generator
        ((self.u64() as u128 * n as u128) >> 64) as u64
    }
    #[inline]
    pub fn usize_below(&mut self, n: usize) -> usize {
        self.below(n as u64) as usize
    }
    /// uniform in lo..=hi
    #[inline]
    pub fn range(&mut self, lo: u64, hi: u64) -> u64 {
        lo + self.below(hi - lo + 1)
    }
    #[inline]
    pub fn urange(&mut self, lo: usize, hi: usize) -> usize {
        self.range(lo as u64, hi as u64) as usize
    }
    /// in [0,1)
    #[inline]
    pub fn f64(&mut self) -> f64 {
        (self.u64() >> 11) as f64 * (1.0 / (1u64 << 53) as f64)
    }
    #[inline]
    pub fn chance(&mut self, p: f64) -> bool {
        self.f64() < p
    }
    pub fn pick<'a, T>(&mut self, v: &'a [T]) -> &'a T {
        &v[self.usize_below(v.len())]
    }
    pub fn shuffle<T>(&mut self, v: &mut [T]) {
        for i in (1..v.len()).rev() {
            let j = self.usize_below(i + 1);
            v.swap(i, j);
        }
    }
    /// log-uniform integer in lo..=hi (lo >= 1): small values as likely as large ones
    pub fn log_range(&mut self, lo: u64, hi: u64) -> u64 {
        let l = (lo as f64).ln();
        let h = ((hi + 1) as f64).ln();
        let v = (l + self.f64() * (h - l)).exp().floor() as u64;
        v.clamp(lo, hi)
    }
}

/// FNV style rolling hash used for schedule / class fingerprints
#[derive(Clone, Copy)]
pub struct Fp(pub u64);
impl Fp {
    pub fn new() -> Fp {
        Fp(0xcbf2_9ce4_8422_2325)
    }
    #[inline]
    pub fn add(&mut self, w: u64) {
        let mut x = self.0 ^ w;
        self.0 = splitmix(&mut x);
    }
    pub fn add_str(&mut self, s: &str) {
        self.add(hash_str(s));
    }
}
