//! C18 — byte identities (`Sig`) are faithful and memory safe.
//! Workload: every `Sig` implementation on seeded values (empty, one element, odd lengths, large),
//! directly and as keys of ProbMinHash3aSha, executed under the tracking / poisoning / quarantining
//! allocator (alloc_track.rs). Oracles: bytes == native-endian specification; no second free, no
//! layout mismatch; poison never shows up in the returned bytes (it would fail the byte oracle).

use crate::core::*;
use crate::prng::Rng;
use crate::sc_wstream::{SeedBH, ShaKey};
use indexmap::IndexMap;
use probminhash::probminhasher::sig::Sig;
use probminhash::probminhasher::ProbMinHash3aSha;
use serde::{Deserialize, Serialize};

#[derive(Serialize, Deserialize, Clone, Copy, Debug, PartialEq, Eq)]
pub enum SigTy {
    U8,
    U16,
    U32,
    U64,
    I16,
    I32,
    Str,
    VecU8,
    VecU16,
    VecU32,
}

#[derive(Serialize, Deserialize, Clone, Debug)]
pub struct SigPlan {
    pub ty: SigTy,
    /// scalar value or vector elements (truncated to the element width)
    pub vals: Vec<u64>,
    pub text: String,
    /// how often get_sig is called in a row (allocator reuse between calls)
    pub repeat: u32,
    /// spare capacity of the vector / string buffer beyond its length
    #[serde(default)]
    pub spare: u32,
    /// the value was longer once and was truncated to its length (stale elements behind the end)
    #[serde(default)]
    pub shrunk: bool,
    /// additionally run a ProbMinHash3aSha over keys of this kind
    pub sha: Option<(ShaKey, usize, Vec<u64>)>,
}

pub struct SigSc;

fn spec_bytes(p: &SigPlan) -> Vec<u8> {
    let v0 = p.vals.first().copied().unwrap_or(0);
    match p.ty {
        SigTy::U8 => vec![v0 as u8],
        SigTy::U16 => (v0 as u16).to_ne_bytes().to_vec(),
        SigTy::U32 => (v0 as u32).to_ne_bytes().to_vec(),
        SigTy::U64 => v0.to_ne_bytes().to_vec(),
        SigTy::I16 => (v0 as i16).to_ne_bytes().to_vec(),
        SigTy::I32 => (v0 as i32).to_ne_bytes().to_vec(),
        SigTy::Str => p.text.as_bytes().to_vec(),
        SigTy::VecU8 => p.vals.iter().map(|v| *v as u8).collect(),
        SigTy::VecU16 => p.vals.iter().flat_map(|v| (*v as u16).to_ne_bytes()).collect(),
        SigTy::VecU32 => p.vals.iter().flat_map(|v| (*v as u32).to_ne_bytes()).collect(),
    }
}

/// builds the vector the way long-lived buffers look in practice: spare capacity, stale elements behind the end
fn build<T: Copy>(p: &SigPlan, conv: fn(u64) -> T, junk: T) -> Vec<T> {
    let mut v: Vec<T> = Vec::with_capacity(p.vals.len() + p.spare as usize);
    v.extend(p.vals.iter().map(|x| conv(*x)));
    if p.shrunk {
        for _ in 0..p.spare {
            v.push(junk);
        }
        v.truncate(p.vals.len());
    }
    v
}

fn real_bytes(p: &SigPlan) -> Vec<u8> {
    let v0 = p.vals.first().copied().unwrap_or(0);
    match p.ty {
        SigTy::U8 => (v0 as u8).get_sig(),
        SigTy::U16 => (v0 as u16).get_sig(),
        SigTy::U32 => (v0 as u32).get_sig(),
        SigTy::U64 => v0.get_sig(),
        SigTy::I16 => (v0 as i16).get_sig(),
        SigTy::I32 => (v0 as i32).get_sig(),
        SigTy::Str => {
            let mut s = String::with_capacity(p.text.len() + p.spare as usize);
            s.push_str(&p.text);
            if p.shrunk {
                s.push_str("stale-tail-é");
                s.truncate(p.text.len());
            }
            s.get_sig()
        }
        SigTy::VecU8 => build(p, |v| v as u8, 0xEFu8).get_sig(),
        SigTy::VecU16 => build(p, |v| v as u16, 0xBEEFu16).get_sig(),
        SigTy::VecU32 => build(p, |v| v as u32, 0xDEAD_BEEFu32).get_sig(),
    }
}

fn sha_run<D: crate::sc_wstream::Key + Sig>(m: usize, ids: &[u64], ghosts: bool) -> Vec<u64> {
    let mut sk = ProbMinHash3aSha::<D>::new(m, D::from_id(crate::sc_wstream::PLACEHOLDER));
    let mut mp: IndexMap<D, f64, SeedBH> = IndexMap::with_hasher(SeedBH(3));
    for (k, i) in ids.iter().enumerate() {
        if ghosts && k % 2 == 0 {
            // an entry of weight 0 (no member of the weighted set) right before a real key
            mp.insert(D::from_id(0xffff_0000 + k as u64), 0.0);
        }
        mp.insert(D::from_id(*i), 1.0 + (k % 7) as f64);
    }
    sk.hash_weigthed_idxmap(&mp);
    sk.get_signature().iter().map(|d| d.to_id()).collect()
}

/// registers of a sketcher that was given the keys `ids` (in this order, one batch, all with the same weight)
fn sha_regs<D: crate::sc_wstream::Key + Sig>(m: usize, ids: &[u64]) -> Vec<u64> {
    let mut sk = ProbMinHash3aSha::<D>::new(m, D::from_id(crate::sc_wstream::PLACEHOLDER));
    let mut mp: IndexMap<D, f64, SeedBH> = IndexMap::with_hasher(SeedBH(3));
    for i in ids {
        mp.insert(D::from_id(*i), 1.5);
    }
    sk.hash_weigthed_idxmap(&mp);
    sk.verif_registers().0.iter().map(|x| x.to_bits()).collect()
}

fn sha_regs_dispatch(k: ShaKey, m: usize, ids: &[u64]) -> Vec<u64> {
    match k {
        ShaKey::U64 => sha_regs::<u64>(m, ids),
        ShaKey::U32 => sha_regs::<u32>(m, ids),
        ShaKey::VecU8 => sha_regs::<Vec<u8>>(m, ids),
        ShaKey::Str => sha_regs::<String>(m, ids),
        ShaKey::VecU16 => sha_regs::<Vec<u16>>(m, ids),
        ShaKey::VecU32 => sha_regs::<Vec<u32>>(m, ids),
    }
}

fn sha_dispatch(k: ShaKey, m: usize, ids: &[u64], ghosts: bool) -> Vec<u64> {
    match k {
        ShaKey::U64 => sha_run::<u64>(m, ids, ghosts),
        ShaKey::U32 => sha_run::<u32>(m, ids, ghosts),
        ShaKey::VecU8 => sha_run::<Vec<u8>>(m, ids, ghosts),
        ShaKey::Str => sha_run::<String>(m, ids, ghosts),
        ShaKey::VecU16 => sha_run::<Vec<u16>>(m, ids, ghosts),
        ShaKey::VecU32 => sha_run::<Vec<u32>>(m, ids, ghosts),
    }
}

impl Scenario for SigSc {
    type Plan = SigPlan;
    fn name(&self) -> &'static str {
        "sig"
    }
    fn allocator_reports_are_verdicts(&self) -> bool {
        true
    }
    fn generate(&self, rng: &mut Rng, tier: Tier, _t: &str) -> SigPlan {
        let ty = *rng.pick(&[SigTy::U8, SigTy::U16, SigTy::U32, SigTy::U64, SigTy::I16, SigTy::I32, SigTy::Str, SigTy::VecU8, SigTy::VecU16, SigTy::VecU16, SigTy::VecU32, SigTy::VecU32]);
        let maxlen = if tier == Tier::Thorough && rng.chance(0.02) { 1_000_000 } else { 2000 };
        let n = match ty {
            SigTy::VecU8 | SigTy::VecU16 | SigTy::VecU32 => match rng.below(6) {
                0 => 0,
                1 => 1,
                2 => 3,
                3 => rng.urange(1, 17),
                _ => rng.log_range(1, maxlen) as usize,
            },
            _ => 1,
        };
        let vals: Vec<u64> = (0..n)
            .map(|_| match rng.below(5) {
                0 => 0,
                1 => u64::MAX,
                2 => rng.below(256),
                _ => rng.u64(),
            })
            .collect();
        let tl = rng.urange(0, 40);
        let alphabet: Vec<char> = "abcXYZ019 -_éß∑😀".chars().collect();
        let mut text: String = (0..tl).map(|_| *rng.pick(&alphabet)).collect();
        match rng.below(12) {
            0 => text.push('\n'),
            1 => text.push_str("\r\n"),
            2 => text.push(' '),
            3 => text.insert(0, '\n'),
            4 => text.push('\0'),
            5 => text.push('\t'),
            _ => {}
        }
        let sha = if rng.chance(0.3) {
            let k = *rng.pick(&[ShaKey::U64, ShaKey::U32, ShaKey::VecU8, ShaKey::Str, ShaKey::VecU16, ShaKey::VecU32]);
            let m = rng.urange(2, 32);
            let nk = rng.urange(1, 40);
            let ids = crate::sc_stream::gen_items(rng, nk, crate::nodes::ElemT::U32).into_iter().filter(|i| *i < 0xffff_fff0).collect::<Vec<_>>();
            let mut ids = if ids.is_empty() { vec![5] } else { ids };
            if matches!(k, ShaKey::VecU8 | ShaKey::Str | ShaKey::VecU16 | ShaKey::VecU32) {
                // keys with a long common prefix; the empty key somewhere behind another key
                if rng.chance(0.25) {
                    for i in ids.iter_mut() {
                        *i |= crate::sc_wstream::LONG_KEY;
                    }
                }
                if rng.chance(0.2) {
                    let pos = rng.urange(1, ids.len());
                    ids.insert(pos, crate::sc_wstream::EMPTY_KEY);
                }
            }
            Some((k, m, ids))
        } else {
            None
        };
        let spare = if rng.chance(0.5) { 0 } else { rng.log_range(1, 64) as u32 };
        let shrunk = spare > 0 && rng.chance(0.5);
        SigPlan { ty, vals, text, repeat: rng.urange(1, 4) as u32, spare, shrunk, sha }
    }
    fn execute(&self, plan: &SigPlan, ctx: &mut Ctx) -> Result<(), Violation> {
        let spec = spec_bytes(plan);
        ctx.sched.add(plan.ty as u64);
        ctx.sched.add(plan.vals.len() as u64);
        if plan.spare > 0 {
            ctx.count("fault:buffer-with-spare-capacity");
        }
        if plan.shrunk {
            ctx.count("fault:stale-elements-behind-the-end");
        }
        for v in plan.vals.iter().take(8) {
            ctx.sched.add(*v);
        }
        ctx.sched.add(crate::prng::hash_str(&plan.text));
        for _ in 0..plan.repeat {
            ctx.ev("get_sig", spec.len() as u64);
            // the tracking allocator is armed by the runner for the whole run
            let got = real_bytes(plan);
            let bad = if got.len() != spec.len() { Some(usize::MAX) } else { (0..got.len()).find(|i| got[*i] != spec[*i]) };
            ctx.check("C18", "bytes-equal-native-endian-representation", bad.is_none(), || {
                let show = |v: &Vec<u8>| format!("{:02x?}", &v[..v.len().min(16)]);
                format!(
                    "{:?} with {} element(s): get_sig() returned {} bytes {}, the native-endian representation is {} bytes {} (first difference at {:?}{})",
                    plan.ty,
                    plan.vals.len(),
                    got.len(),
                    show(&got),
                    spec.len(),
                    show(&spec),
                    bad,
                    if got.iter().take(16).all(|b| *b == 0xDE) && !got.is_empty() { "; the returned bytes are the allocator's freed-memory poison" } else { "" }
                )
            })?;
            // dropping `got` here is part of the workload (second free of an aliased buffer shows up now)
            drop(got);
            let rep = crate::alloc_track::peek();
            ctx.check("C18", "no-invalid-free", rep.clean(), || format!("{:?} with {} element(s): {}", plan.ty, plan.vals.len(), rep.first))?;
        }
        for b in &spec {
            ctx.out.add(*b as u64);
        }
        if let Some((k, m, ids)) = &plan.sha {
            ctx.ev("sha-sketch", ids.len() as u64);
            // a sketcher over another key type, fed keys that print alike, runs first in this thread; the reference
            // signature is computed in a fresh thread that has no history at all
            let other = match k {
                ShaKey::U64 => ShaKey::U32,
                ShaKey::U32 => ShaKey::U64,
                ShaKey::VecU8 => ShaKey::VecU16,
                ShaKey::VecU16 => ShaKey::VecU32,
                ShaKey::VecU32 => ShaKey::VecU8,
                ShaKey::Str => ShaKey::U64,
            };
            let _ = caught(|| sha_dispatch(other, *m, ids, false));
            ctx.count("fault:other-key-type-sketched-first-in-this-thread");
            let s1 = sha_dispatch(*k, *m, ids, false);
            let (kk, mm) = (*k, *m);
            crate::alloc_track::pause();
            // the reference thread records its own allocations (a heap error of the library there must be recorded,
            // not abort the harness)
            let fresh = std::thread::scope(|sc| {
                sc.spawn(move || {
                    crate::alloc_track::arm();
                    let r = caught(|| sha_dispatch(kk, mm, ids, false));
                    let rep = crate::alloc_track::disarm();
                    (r, rep)
                })
                .join()
            });
            crate::alloc_track::resume();
            if let Ok((_, rep)) = &fresh {
                ctx.check("C18", "no-invalid-free", rep.clean(), || format!("ProbMinHash3aSha over {:?} keys (reference thread): {}", k, rep.first))?;
            }
            if let Ok((Ok(sref), _)) = fresh {
                ctx.check("C18", "sha-signature-independent-of-thread-history", s1 == sref, || {
                    format!("{:?} keys: the signature computed after a {:?} sketcher ran in this thread differs from the one computed in a fresh thread", k, other)
                })?;
            }
            let s2 = sha_dispatch(*k, *m, ids, false);
            ctx.check("C18", "sha-signature-stable", s1 == s2, || format!("two ProbMinHash3aSha runs over the same {:?} keys differ", k))?;
            // the bytes that reach Sha for a key must be that key's bytes only: entries of weight 0 in between
            // (accepted by this sketcher, never members) must not change which generator a key gets
            let ids_ok: Vec<u64> = ids.iter().copied().filter(|i| *i < 0xffff_0000).collect();
            if ids_ok.len() == ids.len() {
                if let Ok(s3) = caught(|| sha_dispatch(*k, *m, ids, true)) {
                    ctx.count("fault:zero-weight-ghost-entries");
                    ctx.check("C18", "sha-seed-depends-on-key-bytes-only", s1 == s3, || {
                        format!("{:?} keys: interleaving entries of weight 0 changed the signature of the other keys", k)
                    })?;
                } else {
                    ctx.count("skipped:zero-weight-entries-rejected-by-the-variant");
                }
            }
            // different keys have different identities inside the sketcher too, whatever entry of the trait it uses and
            // whatever it hashed before: the registers of a sketcher given two keys (one batch, equal weights) are the
            // position-wise minimum of the registers of two sketchers given one of the keys each
            let mut uniq: Vec<u64> = vec![];
            for i in ids {
                if !uniq.contains(i) {
                    uniq.push(*i);
                }
            }
            if uniq.len() >= 2 {
                let j = match uniq.iter().position(|i| *i == crate::sc_wstream::EMPTY_KEY) {
                    Some(p) if p >= 1 => p - 1,
                    _ => (uniq[0] % (uniq.len() as u64 - 1)) as usize,
                };
                let (a, b) = (uniq[j], uniq[j + 1]);
                if b == crate::sc_wstream::EMPTY_KEY {
                    ctx.count("probe:empty-key-hashed-after-another-key");
                }
                if a & crate::sc_wstream::LONG_KEY != 0 {
                    ctx.count("probe:keys-with-long-common-prefix");
                }
                let (kk, mm) = (*k, *m);
                if let Ok((rab, rba, ra, rb)) =
                    caught(move || (sha_regs_dispatch(kk, mm, &[a, b]), sha_regs_dispatch(kk, mm, &[b, a]), sha_regs_dispatch(kk, mm, &[a]), sha_regs_dispatch(kk, mm, &[b])))
                {
                    let join: Vec<u64> = ra.iter().zip(rb.iter()).map(|(x, y)| f64::from_bits(*x).min(f64::from_bits(*y)).to_bits()).collect();
                    ctx.check("C18", "distinct-keys-keep-distinct-identities-inside-the-sketcher", rab == join && rba == join && ra != rb, || {
                        format!(
                            "{:?} keys {:#x} and {:#x} (m {}): the registers of the sketcher given both are not the position-wise minimum of the registers of the two single-key sketchers ({} of {} positions differ in order a,b; {} in order b,a){}",
                            k,
                            a,
                            b,
                            m,
                            rab.iter().zip(join.iter()).filter(|(x, y)| x != y).count(),
                            m,
                            rba.iter().zip(join.iter()).filter(|(x, y)| x != y).count(),
                            if ra == rb { "; the two single-key sketchers have identical registers" } else { "" }
                        )
                    })?;
                }
            }
            let bad = s1.iter().position(|i| !ids.contains(i));
            ctx.check("C18", "sha-signature-holds-keys-of-the-set", bad.is_none(), || format!("{:?}: signature position {:?} holds a key that was never inserted", k, bad))?;
            let rep = crate::alloc_track::peek();
            ctx.check("C18", "no-invalid-free", rep.clean(), || format!("ProbMinHash3aSha over {:?} keys: {}", k, rep.first))?;
            for x in &s1 {
                ctx.out.add(*x);
            }
        }
        ctx.nontrivial = !spec.is_empty();
        Ok(())
    }
    fn shrink(&self, plan: &SigPlan) -> Vec<SigPlan> {
        let mut out = vec![];
        if plan.sha.is_some() {
            let mut p = plan.clone();
            p.sha = None;
            out.push(p);
        }
        if plan.vals.len() > 1 {
            for v in shrink_vec(&plan.vals).into_iter().take(40) {
                if !v.is_empty() || matches!(plan.ty, SigTy::VecU8 | SigTy::VecU16 | SigTy::VecU32) {
                    let mut p = plan.clone();
                    p.vals = v;
                    out.push(p);
                }
            }
        }
        if plan.repeat > 1 {
            let mut p = plan.clone();
            p.repeat = 1;
            out.push(p);
        }
        if plan.shrunk {
            let mut p = plan.clone();
            p.shrunk = false;
            out.push(p);
        }
        if plan.spare > 1 {
            let mut p = plan.clone();
            p.spare = 1;
            out.push(p);
        }
        if plan.vals.iter().any(|v| *v > 255) {
            let mut p = plan.clone();
            p.vals = plan.vals.iter().enumerate().map(|(i, _)| (i as u64 + 1) & 0xff).collect();
            out.push(p);
        }
        if let Some((k, m, ids)) = &plan.sha {
            if ids.len() > 1 {
                let mut p = plan.clone();
                p.sha = Some((*k, *m, ids[..ids.len() / 2].to_vec()));
                out.push(p);
            }
        }
        out
    }
    fn doc(&self) -> Doc {
        Doc {
            rule: "seeded values of every Sig type (u8 u16 u32 u64 i16 i32 String Vec<u8> Vec<u16> Vec<u32>): scalars incl. 0 / MAX, strings incl. multi-byte UTF-8, vectors of length 0, 1, 3, 1..17, log-uniform up to 2000 (thorough: 10^6); get_sig called 1..4 times in a row; 30% of runs also sketch a set with ProbMinHash3aSha over keys of a seeded Sig type; every run executes under the tracking / poisoning / quarantining allocator; non-trivial = non-empty byte representation; distinct = distinct (type, value) fingerprints",
            real: &["every impl of Sig", "ProbMinHash3aSha", "sha2", "the System allocator (wrapped)"],
            stub: &["allocator bookkeeping: blocks allocated by the armed thread are recorded, poisoned (0xA5 new, 0xDE freed) and quarantined instead of freed"],
            assumptions: &["memory errors are observed through the allocator seam (second free, layout mismatch, poison in returned bytes); the thorough tier adds Miri as abstract-machine simulator"],
        }
    }
}
