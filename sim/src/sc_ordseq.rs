//! C11 — ProbOrdMinHash2 selects per position independently of sequence order.
//! The network delivers one multiset as a sequence s and as permutations of s to the same
//! instance (after 0..k unrelated earlier hash_set calls). Oracle: per signature position the set
//! of selected (element, occurrence-number) pairs is identical; for l = 1 the public signatures
//! are identical.

use crate::core::*;
use crate::hashers::*;
use crate::nodes::HashT;
use crate::prng::Rng;
use fnv::FnvHasher;
use probminhash::nohasher::NoHashHasher;
use probminhash::probminhasher::probordminhash2::ProbOrdMinHash2;
use serde::{Deserialize, Serialize};
use std::collections::{BTreeMap, BTreeSet};
use std::hash::Hasher;

#[derive(Serialize, Deserialize, Clone, Debug)]
pub struct OrdPlan {
    pub hash: HashT,
    pub m: u32,
    pub l: usize,
    pub seq: Vec<u64>,
    /// permutations of 0..seq.len(): the delivered sequence is seq[perm[i]]
    pub perms: Vec<Vec<usize>>,
    /// unrelated earlier inputs hashed on the same instance
    pub prehistory: Vec<Vec<u64>>,
    /// number of calls on a tiny unrelated sequence between the sequence and each permutation (long-lived instance)
    #[serde(default)]
    pub between_calls: u32,
}

pub struct OrdSeq;

/// (element, occurrence number) of every index of a sequence
fn occurrences(s: &[u64]) -> Vec<(u64, u32)> {
    let mut cnt: BTreeMap<u64, u32> = BTreeMap::new();
    s.iter()
        .map(|e| {
            let c = cnt.entry(*e).or_insert(0);
            *c += 1;
            (*e, *c)
        })
        .collect()
}

type Selected = Vec<BTreeSet<(u64, u32)>>;

fn run_one<H: Hasher + Default>(
    ctx: &mut Ctx,
    sk: &mut ProbOrdMinHash2<H>,
    s: &[u64],
    m: usize,
    l: usize,
    what: &str,
) -> Result<(Vec<u64>, Selected), Violation> {
    let sig = sk.hash_set(s);
    let (idx, _vals) = sk.verif_selected();
    let occ = occurrences(s);
    ctx.check("C11", "selected-indices-valid", idx.len() == m * l && sig.len() == m, || {
        format!("{}: {} indices and {} signature positions for m = {}, l = {}", what, idx.len(), sig.len(), m, l)
    })?;
    let mut sel: Selected = vec![];
    for p in 0..m {
        let v = &idx[p * l..(p + 1) * l];
        let ok = v.iter().all(|i| (*i as usize) < s.len()) && v.windows(2).all(|w| w[0] < w[1]);
        ctx.check("C11", "selected-indices-valid", ok, || {
            format!("{}: position {} selected indices {:?} (sequence length {}): must be valid, distinct and in sequence order", what, p, v, s.len())
        })?;
        sel.push(v.iter().map(|i| occ[*i as usize]).collect());
    }
    Ok((sig, sel))
}

fn exec<H: Hasher + Default>(plan: &OrdPlan, ctx: &mut Ctx) -> Result<(), Violation> {
    let (m, l) = (plan.m as usize, plan.l);
    let mut sk = ProbOrdMinHash2::<H>::new(plan.m, l);
    for pre in &plan.prehistory {
        ctx.ev("earlier-hash_set", pre.len() as u64);
        ctx.count("fault:unrelated-earlier-call-on-instance");
        let _ = sk.hash_set(pre);
    }
    ctx.ev("deliver-sequence", plan.seq.len() as u64);
    for e in &plan.seq {
        ctx.sched.add(*e);
    }
    let (sig0, sel0) = run_one(ctx, &mut sk, &plan.seq, m, l, "original sequence")?;
    for x in &sig0 {
        ctx.out.add(*x);
    }
    let distinct: BTreeSet<u64> = plan.seq.iter().copied().collect();
    if distinct.len() < plan.seq.len() {
        ctx.count("probe:repeated-elements");
    }
    for perm in &plan.perms {
        if plan.between_calls > 0 {
            ctx.ev("many-unrelated-calls", plan.between_calls as u64);
            ctx.count("fault:long-lived-instance-many-calls-in-between");
            let filler: Vec<u64> = (0..l as u64).map(|k| u64::MAX - 17 - k).collect();
            for _ in 0..plan.between_calls {
                let _ = sk.hash_set(&filler);
            }
        }
        let s: Vec<u64> = perm.iter().map(|i| plan.seq[*i]).collect();
        ctx.ev("deliver-permutation", s.len() as u64);
        for i in perm {
            ctx.sched.add(*i as u64);
        }
        if s != plan.seq {
            ctx.count("fault:sequence-reordered");
        }
        let (sig, sel) = run_one(ctx, &mut sk, &s, m, l, "permuted sequence")?;
        let bad = (0..m).find(|p| sel[*p] != sel0[*p]);
        ctx.check("C11", "selected-pairs-independent-of-order", bad.is_none(), || {
            let p = bad.unwrap();
            format!(
                "m {} l {} n {}: position {} selects (element, occurrence) pairs {:?} for the sequence and {:?} for a permutation of it",
                m,
                l,
                s.len(),
                p,
                sel0[p],
                sel[p]
            )
        })?;
        if l == 1 {
            ctx.check("C11", "signature-permutation-invariant-for-l1", sig == sig0, || {
                let p = (0..m).find(|p| sig[*p] != sig0[*p]);
                format!("l = 1, m {} n {}: signature differs at position {:?} between a sequence and a permutation of it", m, s.len(), p)
            })?;
            ctx.count("probe:l1-signature-compared");
        }
    }
    ctx.nontrivial = plan.seq.len() >= 2 && plan.perms.iter().any(|p| p.windows(2).any(|w| w[0] > w[1]));
    Ok(())
}

impl Scenario for OrdSeq {
    type Plan = OrdPlan;
    fn name(&self) -> &'static str {
        "ordseq"
    }
    fn generate(&self, rng: &mut Rng, tier: Tier, _t: &str) -> OrdPlan {
        let hash = *rng.pick(&[HashT::Fnv, HashT::Fnv, HashT::SimA, HashT::NoHash, HashT::Ident, HashT::Ident]);
        let big = tier == Tier::Thorough && rng.chance(0.02);
        let m = if rng.chance(0.1) { rng.range(1, 2) } else { rng.log_range(1, if big { 512 } else { 64 }) } as u32;
        let l = if rng.chance(0.4) { 1 } else { rng.urange(1, if big { 15 } else { 6 }) };
        let n = (l + rng.log_range(1, if big { 2000 } else { 40 }) as usize - 1).max(l);
        // two regimes the small sizes never reach: many positions with a short sequence, and sequences longer
        // than any internal block size
        let (m, n) = match rng.below(100) {
            0 | 1 => (rng.log_range(65, 1024) as u32, (l + rng.urange(0, 20)).max(l)),
            2 => (rng.range(1, 8) as u32, rng.urange(1025, 2600)),
            _ => (m, n),
        };
        let alphabet = match rng.below(4) {
            0 => rng.range(1, 5),
            1 => rng.range(2, 20),
            _ => u64::MAX,
        };
        let base = if rng.chance(0.4) { rng.below(16) } else { rng.u64() >> 8 };
        let mut seq: Vec<u64> = vec![];
        while seq.len() < n {
            let e = if alphabet == u64::MAX { base.wrapping_add(seq.len() as u64 * rng.range(1, 9)) } else { base + rng.below(alphabet) };
            if alphabet == u64::MAX && seq.contains(&e) {
                continue;
            }
            seq.push(e);
        }
        let np = rng.urange(1, 3);
        let mut perms = vec![];
        for _ in 0..np {
            let mut p: Vec<usize> = (0..n).collect();
            match rng.below(5) {
                0 => p.reverse(),
                1 => {
                    let r = rng.usize_below(n);
                    p.rotate_left(r);
                }
                2 => {
                    if n >= 2 {
                        let i = rng.usize_below(n - 1);
                        p.swap(i, i + 1);
                    }
                }
                _ => rng.shuffle(&mut p),
            }
            perms.push(p);
        }
        let nh = *rng.pick(&[0usize, 0, 1, 2, 3]);
        let prehistory = (0..nh)
            .map(|_| {
                let k = l + rng.urange(0, 30);
                (0..k).map(|_| rng.below(50)).collect()
            })
            .collect();
        let between_calls = if !big && m <= 8 && rng.chance(0.01) { *rng.pick(&[254u32, 255, 256, 65_534, 65_535, 65_536]) } else { 0 };
        OrdPlan { hash, m, l, seq, perms, prehistory, between_calls }
    }
    fn execute(&self, plan: &OrdPlan, ctx: &mut Ctx) -> Result<(), Violation> {
        match plan.hash {
            HashT::NoHash => exec::<NoHashHasher>(plan, ctx),
            HashT::SimA => exec::<SimA>(plan, ctx),
            HashT::Ident => exec::<IdentHasher>(plan, ctx),
            _ => exec::<FnvHasher>(plan, ctx),
        }
    }
    fn shrink(&self, plan: &OrdPlan) -> Vec<OrdPlan> {
        let mut out = vec![];
        if !plan.prehistory.is_empty() {
            let mut p = plan.clone();
            p.prehistory.clear();
            out.push(p);
        }
        if plan.between_calls > 0 {
            let mut p = plan.clone();
            p.between_calls = 0;
            out.push(p);
        }
        if plan.perms.len() > 1 {
            for k in 0..plan.perms.len() {
                let mut p = plan.clone();
                p.perms = vec![plan.perms[k].clone()];
                out.push(p);
            }
        }
        // remove one sequence element (and its index from every permutation)
        let n = plan.seq.len();
        if n > plan.l {
            let cands: Vec<usize> = if n > 24 { (0..24).map(|k| k * n / 24).collect() } else { (0..n).collect() };
            // halves first
            for (a, b) in [(0, n / 2), (n / 2, n)] {
                if n - (b - a) >= plan.l.max(1) && b > a {
                    let mut p = plan.clone();
                    p.seq = plan.seq.iter().enumerate().filter(|(i, _)| *i < a || *i >= b).map(|(_, e)| *e).collect();
                    p.perms = plan
                        .perms
                        .iter()
                        .map(|pm| pm.iter().filter(|i| **i < a || **i >= b).map(|i| if *i >= b { *i - (b - a) } else { *i }).collect())
                        .collect();
                    out.push(p);
                }
            }
            for k in cands {
                let mut p = plan.clone();
                p.seq.remove(k);
                p.perms = plan.perms.iter().map(|pm| pm.iter().filter(|i| **i != k).map(|i| if *i > k { *i - 1 } else { *i }).collect()).collect();
                out.push(p);
            }
        }
        for m in [1u32, 2, plan.m / 2, plan.m.saturating_sub(1)] {
            if m >= 1 && m < plan.m {
                let mut p = plan.clone();
                p.m = m;
                out.push(p);
            }
        }
        if plan.l > 1 {
            let mut p = plan.clone();
            p.l = plan.l - 1;
            out.push(p);
        }
        // simple permutation: reversal
        let rev: Vec<usize> = (0..plan.seq.len()).rev().collect();
        if plan.perms.iter().any(|p| *p != rev) {
            let mut p = plan.clone();
            p.perms = vec![rev];
            out.push(p);
        }
        if plan.hash != HashT::Fnv {
            let mut p = plan.clone();
            p.hash = HashT::Fnv;
            out.push(p);
        }
        out
    }
    fn doc(&self) -> Doc {
        Doc {
            rule: "seeded multisets (alphabet of 1..5 or 2..20 symbols with repeats, or distinct elements), length l..l+40 (thorough up to 2000), m 1..64 (512), l 1..6 (15), 3 hashers; delivered as a sequence and as 1..3 permutations (reversal, rotation, adjacent swap, random) to the same instance after 0..3 unrelated earlier hash_set calls; non-trivial = >= 2 elements and a permutation that is not the identity; distinct = distinct (sequence, permutations) fingerprints",
            real: &["ProbOrdMinHash2::hash_set", "OrdMinHashStore", "MaxValueTracker", "FYshuffle", "WyHash combiner"],
            stub: &[],
            assumptions: &["the selected indices are read through the guarded hook verif_selected(); the l = 1 clause uses the public signature only", "the same instance is used for a sequence and its permutations (instance seed identical)"],
        }
    }
}
