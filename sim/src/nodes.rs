//! Uniform drivers around the real unweighted sketchers (SuperMinHash, SuperMinHash2,
//! SetSketcher, OptDensMinHash, RevOptDensMinHash): every node runs the library's code,
//! the trait only gives the event loop one vocabulary for all of them.

use crate::hashers::*;
use fnv::FnvHasher;
use probminhash::densminhash::{OptDensMinHash, RevOptDensMinHash};
use probminhash::nohasher::NoHashHasher;
use probminhash::setsketcher::{SetSketchParams, SetSketcher};
use probminhash::superminhasher::SuperMinHash;
use probminhash::superminhasher2::SuperMinHash2;
use serde::{Deserialize, Serialize};
use std::fmt::Debug;
use std::hash::{BuildHasher, BuildHasherDefault, Hash, Hasher};
use twox_hash::{XxHash32, XxHash64};

#[derive(Serialize, Deserialize, Clone, Copy, Debug, PartialEq, Eq)]
pub enum UKind {
    SmhF64,
    SmhF32,
    Smh2U64,
    Smh2U32,
    SetU16,
    SetU32,
    OptF64,
    OptF32,
    RevF64,
    RevF32,
}
impl UKind {
    pub fn is_dens(&self) -> bool {
        matches!(self, UKind::OptF64 | UKind::OptF32 | UKind::RevF64 | UKind::RevF32)
    }
    pub fn is_set(&self) -> bool {
        matches!(self, UKind::SetU16 | UKind::SetU32)
    }
    pub fn is_f32_dens(&self) -> bool {
        matches!(self, UKind::OptF32 | UKind::RevF32)
    }
    pub const ALL: [UKind; 10] = [
        UKind::SmhF64,
        UKind::SmhF32,
        UKind::Smh2U64,
        UKind::Smh2U32,
        UKind::SetU16,
        UKind::SetU32,
        UKind::OptF64,
        UKind::OptF32,
        UKind::RevF64,
        UKind::RevF32,
    ];
}

#[derive(Serialize, Deserialize, Clone, Copy, Debug, PartialEq, Eq)]
pub enum ElemT {
    U64,
    U32,
    Usize,
}

#[derive(Serialize, Deserialize, Clone, Copy, Debug, PartialEq, Eq)]
pub enum HashT {
    Fnv,
    NoHash,
    Xx64,
    SimA,
    SimB,
    Xx32,
    Sim32,
    #[serde(alias = "Identity")]
    Ident,
}
impl HashT {
    pub fn is32(&self) -> bool {
        matches!(self, HashT::Xx32 | HashT::Sim32)
    }
}

/// SetSketch parameters carried exactly (bit patterns) in plans
#[derive(Serialize, Deserialize, Clone, Copy, Debug, PartialEq, Eq)]
pub struct SetP {
    pub b_bits: u64,
    pub a_bits: u64,
    pub q: u64,
}
impl SetP {
    pub fn new(b: f64, a: f64, q: u64) -> SetP {
        SetP { b_bits: b.to_bits(), a_bits: a.to_bits(), q }
    }
    pub fn b(&self) -> f64 {
        f64::from_bits(self.b_bits)
    }
    pub fn a(&self) -> f64 {
        f64::from_bits(self.a_bits)
    }
    pub fn params(&self, m: usize) -> SetSketchParams {
        SetSketchParams::new(self.b(), m as u64, self.a(), self.q)
    }
}

#[derive(Serialize, Deserialize, Clone, Debug, PartialEq)]
pub struct USpec {
    pub kind: UKind,
    pub elem: ElemT,
    pub hash: HashT,
    pub m: usize,
    pub setp: Option<SetP>,
    /// SetSketcher only: build the node with `SetSketcher::default()` (the spec then carries the default parameters)
    #[serde(default)]
    pub use_default: bool,
}

/// parameters of `SetSketchParams::default()` as the crate defines them (read from the crate, not copied)
pub fn default_setp() -> (SetP, usize) {
    let d = SetSketchParams::default();
    (SetP::new(d.get_b(), d.get_a(), d.get_q()), d.get_m() as usize)
}

pub trait Elem: Hash + Copy + Eq + Debug + Send + Sync + 'static {
    fn from_id(id: u64) -> Self;
}
impl Elem for u64 {
    fn from_id(id: u64) -> u64 {
        id
    }
}
impl Elem for u32 {
    fn from_id(id: u64) -> u32 {
        id as u32
    }
}
impl Elem for usize {
    fn from_id(id: u64) -> usize {
        id as usize
    }
}

pub trait FBits: Copy {
    fn to_u64_bits(self) -> u64;
}
impl FBits for f64 {
    fn to_u64_bits(self) -> u64 {
        self.to_bits()
    }
}
impl FBits for f32 {
    fn to_u64_bits(self) -> u64 {
        self.to_bits() as u64
    }
}

pub type View = (&'static str, Vec<u64>);

/// state of a densified sketcher read through the verification hook
#[derive(Clone, Debug, PartialEq)]
pub struct DensState {
    pub fvals: Vec<u64>,
    pub hashes: Vec<u64>,
    pub init: Vec<bool>,
    pub nb_empty: i64,
}

pub trait UNode: Send {
    fn deliver(&mut self, id: u64);
    /// sketch_slice (for the densified sketchers this also finishes)
    fn chunk(&mut self, ids: &[u64]) -> bool;
    /// end_sketch for densified sketchers, nothing otherwise
    fn finish(&mut self);
    fn restart(&mut self);
    /// all public views as bit patterns (densified: only valid once finished)
    fn views(&self) -> Vec<View>;
    fn hash_of(&self, id: u64) -> u64;
    /// name of the view holding item hashes, if any
    fn hash_view(&self) -> Option<&'static str>;
    fn dens_state(&self) -> Option<DensState> {
        None
    }
    /// SetSketch only: (low sketch, nb overflow, cardinal estimate bits)
    fn set_extras(&self) -> Option<(i64, u64, f64)> {
        None
    }
    /// SetSketch only: merge a sketch of these items (same parameters) into this one
    fn merge_items(&mut self, _ids: &[u64]) -> bool {
        false
    }
}

// ---------- SuperMinHash ----------
struct NSmh<F: num::Float, T: Hash, H: Hasher + Default>(SuperMinHash<F, T, H>);
impl<F, T, H> UNode for NSmh<F, T, H>
where
    F: num::Float + rand_distr_uniform::SU + Debug + FBits + Send + Sync,
    T: Elem,
    H: Hasher + Default,
{
    fn deliver(&mut self, id: u64) {
        self.0.sketch(&T::from_id(id)).unwrap();
    }
    fn chunk(&mut self, ids: &[u64]) -> bool {
        let v: Vec<T> = ids.iter().map(|i| T::from_id(*i)).collect();
        self.0.sketch_slice(&v).is_ok()
    }
    fn finish(&mut self) {}
    fn restart(&mut self) {
        self.0.reinit();
    }
    fn views(&self) -> Vec<View> {
        vec![("hsketch", self.0.get_hsketch().iter().map(|x| x.to_u64_bits()).collect())]
    }
    fn hash_of(&self, id: u64) -> u64 {
        BuildHasherDefault::<H>::default().hash_one(T::from_id(id))
    }
    fn hash_view(&self) -> Option<&'static str> {
        None
    }
}
pub mod rand_distr_uniform {
    pub use rand::distr::uniform::SampleUniform as SU;
}

// ---------- SuperMinHash2 ----------
struct NSmh2<I: num::Integer, T: Hash, H: Hasher + Default>(SuperMinHash2<I, T, H>);
macro_rules! impl_smh2 {
    ($I:ty) => {
        impl<T: Elem, H: Hasher + Default> UNode for NSmh2<$I, T, H> {
            fn deliver(&mut self, id: u64) {
                self.0.sketch(&T::from_id(id)).unwrap();
            }
            fn chunk(&mut self, ids: &[u64]) -> bool {
                let v: Vec<T> = ids.iter().map(|i| T::from_id(*i)).collect();
                self.0.sketch_slice(&v).is_ok()
            }
            fn finish(&mut self) {}
            fn restart(&mut self) {
                self.0.reinit();
            }
            fn views(&self) -> Vec<View> {
                vec![("hsketch", self.0.get_hsketch().iter().map(|x| *x as u64).collect())]
            }
            fn hash_of(&self, id: u64) -> u64 {
                BuildHasherDefault::<H>::default().hash_one(T::from_id(id))
            }
            fn hash_view(&self) -> Option<&'static str> {
                Some("hsketch")
            }
        }
    };
}
impl_smh2!(u64);
impl_smh2!(u32);

// ---------- SetSketcher ----------
struct NSet<I: num::Integer, T, H: Hasher + Default>(SetSketcher<I, T, H>, SetSketchParams);
macro_rules! impl_set {
    ($I:ty) => {
        impl<T: Elem, H: Hasher + Default> UNode for NSet<$I, T, H> {
            fn deliver(&mut self, id: u64) {
                self.0.sketch(&T::from_id(id)).unwrap();
            }
            fn chunk(&mut self, ids: &[u64]) -> bool {
                let v: Vec<T> = ids.iter().map(|i| T::from_id(*i)).collect();
                self.0.sketch_slice(&v).is_ok()
            }
            fn finish(&mut self) {}
            fn restart(&mut self) {
                self.0.reinit();
            }
            fn views(&self) -> Vec<View> {
                vec![
                    ("signature", self.0.get_signature().iter().map(|x| *x as u64).collect()),
                    ("hsketch", self.0.get_hsketch().iter().map(|x| *x as u64).collect()),
                ]
            }
            fn hash_of(&self, id: u64) -> u64 {
                BuildHasherDefault::<H>::default().hash_one(T::from_id(id))
            }
            fn hash_view(&self) -> Option<&'static str> {
                None
            }
            fn set_extras(&self) -> Option<(i64, u64, f64)> {
                Some((
                    self.0.get_low_sketch(),
                    self.0.get_nb_overflow(),
                    self.0.get_cardinal_stats().0,
                ))
            }
            fn merge_items(&mut self, ids: &[u64]) -> bool {
                let mut other = SetSketcher::<$I, T, H>::new(self.1, BuildHasherDefault::<H>::default());
                for i in ids {
                    other.sketch(&T::from_id(*i)).unwrap();
                }
                self.0.merge(&other).is_ok()
            }
        }
    };
}
impl_set!(u16);
impl_set!(u32);

// ---------- densified ----------
struct NOpt<F: num::Float, T: Hash, H: Hasher + Default>(OptDensMinHash<F, T, H>);
struct NRev<F: num::Float, T: Hash, H: Hasher + Default>(RevOptDensMinHash<F, T, H>);
macro_rules! impl_dens {
    ($N:ident) => {
        impl<F, T, H> UNode for $N<F, T, H>
        where
            F: num::Float + rand_distr_uniform::SU + Debug + FBits + Send + Sync,
            T: Elem,
            H: Hasher + Default,
        {
            fn deliver(&mut self, id: u64) {
                self.0.sketch(&T::from_id(id));
            }
            fn chunk(&mut self, ids: &[u64]) -> bool {
                let v: Vec<T> = ids.iter().map(|i| T::from_id(*i)).collect();
                self.0.sketch_slice(&v).is_ok()
            }
            fn finish(&mut self) {
                self.0.end_sketch();
            }
            fn restart(&mut self) {
                self.0.reinit();
            }
            fn views(&self) -> Vec<View> {
                vec![
                    ("hsketch", self.0.get_hsketch().iter().map(|x| x.to_u64_bits()).collect()),
                    ("hsketch_u64", self.0.get_hsketch_u64()),
                    ("hsketch_u32", self.0.get_hsketch_u32().iter().map(|x| *x as u64).collect()),
                ]
            }
            fn hash_of(&self, id: u64) -> u64 {
                BuildHasherDefault::<H>::default().hash_one(T::from_id(id))
            }
            fn hash_view(&self) -> Option<&'static str> {
                Some("hsketch_u64")
            }
            fn dens_state(&self) -> Option<DensState> {
                let (f, h, i, n) = self.0.verif_state();
                Some(DensState {
                    fvals: f.iter().map(|x| x.to_u64_bits()).collect(),
                    hashes: h,
                    init: i,
                    nb_empty: n,
                })
            }
        }
    };
}
impl_dens!(NOpt);
impl_dens!(NRev);

fn mk<T: Elem, H: Hasher + Default + Send + Sync + 'static>(spec: &USpec) -> Box<dyn UNode> {
    let m = spec.m;
    let bh = BuildHasherDefault::<H>::default();
    match spec.kind {
        UKind::SmhF64 => Box::new(NSmh::<f64, T, H>(SuperMinHash::new(m, bh))),
        UKind::SmhF32 => Box::new(NSmh::<f32, T, H>(SuperMinHash::new(m, bh))),
        UKind::Smh2U64 => Box::new(NSmh2::<u64, T, H>(SuperMinHash2::new(m, bh))),
        UKind::Smh2U32 => Box::new(NSmh2::<u32, T, H>(SuperMinHash2::new(m, bh))),
        UKind::SetU16 if spec.use_default => Box::new(NSet::<u16, T, H>(SetSketcher::default(), spec.setp.unwrap().params(m))),
        UKind::SetU32 if spec.use_default => Box::new(NSet::<u32, T, H>(SetSketcher::default(), spec.setp.unwrap().params(m))),
        UKind::SetU16 => {
            Box::new(NSet::<u16, T, H>(SetSketcher::new(spec.setp.unwrap().params(m), bh), spec.setp.unwrap().params(m)))
        }
        UKind::SetU32 => {
            Box::new(NSet::<u32, T, H>(SetSketcher::new(spec.setp.unwrap().params(m), bh), spec.setp.unwrap().params(m)))
        }
        UKind::OptF64 => Box::new(NOpt::<f64, T, H>(OptDensMinHash::new(m, bh))),
        UKind::OptF32 => Box::new(NOpt::<f32, T, H>(OptDensMinHash::new(m, bh))),
        UKind::RevF64 => Box::new(NRev::<f64, T, H>(RevOptDensMinHash::new(m, bh))),
        UKind::RevF32 => Box::new(NRev::<f32, T, H>(RevOptDensMinHash::new(m, bh))),
    }
}

fn mk_h<T: Elem>(spec: &USpec) -> Box<dyn UNode> {
    match spec.hash {
        HashT::Fnv => mk::<T, FnvHasher>(spec),
        HashT::NoHash => mk::<T, NoHashHasher>(spec),
        HashT::Xx64 => mk::<T, XxHash64>(spec),
        HashT::SimA => mk::<T, SimA>(spec),
        HashT::SimB => mk::<T, SimB>(spec),
        HashT::Xx32 => mk::<T, XxHash32>(spec),
        HashT::Sim32 => mk::<T, Sim32A>(spec),
        HashT::Ident => mk::<T, IdentHasher>(spec),
    }
}

pub fn make_unode(spec: &USpec) -> Box<dyn UNode> {
    match spec.elem {
        ElemT::U64 => mk_h::<u64>(spec),
        ElemT::U32 => mk_h::<u32>(spec),
        ElemT::Usize => mk_h::<usize>(spec),
    }
}

/// draws a valid sketcher configuration (swarm)
pub fn gen_uspec(rng: &mut crate::prng::Rng, kinds: &[UKind], max_m: usize) -> USpec {
    let kind = *rng.pick(kinds);
    let elem = *rng.pick(&[ElemT::U64, ElemT::U32, ElemT::Usize]);
    let hash = if kind == UKind::Smh2U32 {
        *rng.pick(&[HashT::Xx32, HashT::Sim32])
    } else {
        *rng.pick(&[
            HashT::Fnv,
            HashT::Fnv,
            HashT::NoHash,
            HashT::Xx64,
            HashT::SimA,
            HashT::SimB,
            HashT::Xx32,
            HashT::Ident,
        ])
    };
    let m = match rng.below(10) {
        0 => 1,
        1 => 2,
        2 => 3,
        3..=6 => rng.log_range(1, max_m.min(64) as u64) as usize,
        _ => rng.log_range(1, max_m as u64) as usize,
    };
    let setp = if kind.is_set() { Some(gen_setp(rng, kind == UKind::SetU16)) } else { None };
    USpec { kind, elem, hash, m, setp, use_default: false }
}

pub fn gen_setp(rng: &mut crate::prng::Rng, is_u16: bool) -> SetP {
    let b = *rng.pick(&[1.0001, 1.001, 1.001, 1.05, 1.5, 2.0]);
    let a = *rng.pick(&[20.0, 20.0, 1.0, 0.1, 100.0, 3.5]);
    let q = if is_u16 {
        *rng.pick(&[65534u64, 65534, 30, 100, 1000, 1 << 20])
    } else {
        *rng.pick(&[65534u64, 30, 1 << 20, (1u64 << 32) - 2, 1 << 40])
    };
    if rng.chance(0.12) {
        // the regime that needs wide registers: b very close to 1, large q (u32 values above 65535, u16 saturating)
        return SetP::new(1.0001, *rng.pick(&[20.0, 100.0, 1.0e6]), 1 << 20);
    }
    SetP::new(b, a, q)
}

/// Pairs of distinct items that tie exactly in an f32 densified sketcher of this configuration: both
/// land in the same bin with bit-identical value when sketched alone by the real code. Found by probing
/// single-item sketches (ids 0..30000); cached per configuration. Only for small m (the chance of a
/// tie per pair is 1 / (m * 2^23)).
pub fn f32_tie_pairs(spec: &USpec) -> Vec<(u64, u64)> {
    use std::collections::BTreeMap;
    use std::sync::Mutex;
    static CACHE: Mutex<BTreeMap<String, Vec<(u64, u64)>>> = Mutex::new(BTreeMap::new());
    if !spec.kind.is_f32_dens() || spec.m > 16 {
        return vec![];
    }
    let key = format!("{:?}/{:?}/{:?}/{}", spec.kind, spec.elem, spec.hash, spec.m);
    if let Some(v) = CACHE.lock().unwrap().get(&key) {
        return v.clone();
    }
    let mut node = make_unode(spec);
    let mut seen: BTreeMap<(usize, u64), u64> = BTreeMap::new();
    let mut pairs = vec![];
    for id in 0..30_000u64 {
        node.restart();
        node.deliver(id);
        if let Some(st) = node.dens_state() {
            if let Some(k) = st.init.iter().position(|b| *b) {
                let hv = st.hashes[k];
                match seen.get(&(k, st.fvals[k])) {
                    Some(other) if node.hash_of(*other) != hv => {
                        pairs.push((*other, id));
                        if pairs.len() >= 8 {
                            break;
                        }
                    }
                    Some(_) => {}
                    None => {
                        seen.insert((k, st.fvals[k]), id);
                    }
                }
            }
        }
    }
    CACHE.lock().unwrap().insert(key, pairs.clone());
    pairs
}

/// An unrelated sketcher of the same type but other size / parameters, built, used and dropped: state shared
/// between instances (statics, thread-locals, caches keyed incompletely) must not leak into the run's nodes.
pub fn decoy_unode(spec: &USpec) {
    let mut variants: Vec<USpec> = vec![];
    // another size and clearly other parameters
    let mut d = spec.clone();
    d.use_default = false;
    d.m = spec.m + 1 + spec.m / 2;
    if let Some(sp) = d.setp.as_mut() {
        sp.a_bits = (sp.a() * 2.0).to_bits();
        sp.q = sp.q.saturating_add(3);
    }
    variants.push(d);
    if let Some(sp) = spec.setp {
        // same size, parameters that differ only slightly (caches keyed by rounded parameters)
        let mut d = spec.clone();
        d.use_default = false;
        d.setp = Some(SetP::new(sp.b(), sp.a() * (1.0 + 1.0 / 64.0), sp.q));
        variants.push(d);
        let mut d = spec.clone();
        d.use_default = false;
        d.setp = Some(SetP::new(1.0 + (sp.b() - 1.0) * 1.01, sp.a(), sp.q));
        variants.push(d);
        // the other register type (statics inside generic code are shared by all instantiations)
        let mut d = spec.clone();
        d.use_default = false;
        d.kind = if spec.kind == UKind::SetU16 { UKind::SetU32 } else { UKind::SetU16 };
        variants.push(d);
    } else {
        // the other float / integer instantiation of the same sketcher
        let other = match spec.kind {
            UKind::SmhF64 => Some(UKind::SmhF32),
            UKind::SmhF32 => Some(UKind::SmhF64),
            UKind::OptF64 => Some(UKind::OptF32),
            UKind::OptF32 => Some(UKind::OptF64),
            UKind::RevF64 => Some(UKind::RevF32),
            UKind::RevF32 => Some(UKind::RevF64),
            UKind::Smh2U64 => None,
            _ => None,
        };
        if let Some(k) = other {
            let mut d = spec.clone();
            d.kind = k;
            variants.push(d);
        }
    }
    for d in variants {
        let mut n = make_unode(&d);
        for k in 0..3u64 {
            n.deliver(0xdec0_0000 + k);
        }
        if d.kind.is_dens() {
            n.finish();
        }
        std::hint::black_box(n.views().len());
        if let Some(x) = n.set_extras() {
            std::hint::black_box(x);
        }
    }
}
