//! C12 — a sketch is a pure function of parameters, hasher and input.
//! One job (sketcher configuration + input + delivery schedule, drawn from the other scenarios'
//! generators) is executed by replicas R0, R1 in the scheduler's thread, R2.. in their own OS threads
//! (a seeded token scheduler releases exactly one replica operation at a time, constructions
//! included, so the interleaving is the PRNG's choice and replays) and, in a fraction of the runs,
//! in child processes (fresh address space layout, fresh RandomState keys, MALLOC_PERTURB_).
//! Between operations the replica's thread is perturbed (unrelated sketchers built and dropped,
//! draws from the thread's rand generator, RandomState maps, heap churn).
//! Oracle: the outputs of all replicas are bit-identical.

use crate::core::*;
use crate::nodes::*;
use crate::prng::Rng;
use crate::sc_ordseq::{OrdPlan, OrdSeq};
use crate::sc_restart::make_ord;
use crate::sc_stream::{SEv, Stream, StreamPlan};
use crate::sc_wstream::{make_wnode, pairs_of, WEv, WNode, WPlan, WStream};
use serde::{Deserialize, Serialize};
use std::sync::mpsc;

#[derive(Serialize, Deserialize, Clone, Debug)]
pub enum Job {
    U(StreamPlan),
    W(WPlan),
    O(OrdPlan),
}

#[derive(Serialize, Deserialize, Clone, Debug)]
pub struct ReplicaPlan {
    pub job: Job,
    /// replicas in the scheduler's own thread
    pub inline_replicas: usize,
    /// replicas in their own OS threads
    pub thread_replicas: usize,
    /// replicas in child processes, each with its MALLOC_PERTURB_ byte
    pub process_replicas: Vec<u8>,
    /// schedule: (replica index, perturbation code) per tick; replicas that are finished are skipped;
    /// when the list is exhausted the remaining steps run round robin
    pub schedule: Vec<(usize, u8)>,
    /// supplementary configuration: the thread replicas run the whole job at the same time, released by a
    /// barrier, with the OS deciding the interleaving (not replayable in its schedule; the oracle is an
    /// equality that holds on every execution of correct code)
    #[serde(default)]
    pub free_running: bool,
}

pub struct Replicas;

/// sketch of byte-slice keys (`T = &[u8]`, each key 8 bytes) by the sketcher family of `kind`
fn sketch_slices<H: std::hash::Hasher + Default>(spec: &USpec, keys: &[&[u8]]) -> Vec<u64> {
    use probminhash::densminhash::{OptDensMinHash, RevOptDensMinHash};
    use probminhash::setsketcher::SetSketcher;
    use probminhash::superminhasher::SuperMinHash;
    use probminhash::superminhasher2::SuperMinHash2;
    let bh = std::hash::BuildHasherDefault::<H>::default();
    let m = spec.m;
    match spec.kind {
        UKind::SmhF64 | UKind::SmhF32 => {
            let mut s = SuperMinHash::<f64, &[u8], H>::new(m, bh);
            for k in keys {
                s.sketch(k).unwrap();
            }
            s.get_hsketch().iter().map(|x| x.to_bits()).collect()
        }
        UKind::Smh2U64 | UKind::Smh2U32 => {
            let mut s = SuperMinHash2::<u64, &[u8], H>::new(m, bh);
            for k in keys {
                s.sketch(k).unwrap();
            }
            s.get_hsketch().to_vec()
        }
        UKind::SetU16 | UKind::SetU32 => {
            let mut s = SetSketcher::<u32, &[u8], H>::new(spec.setp.unwrap().params(m), bh);
            for k in keys {
                s.sketch(k).unwrap();
            }
            s.get_signature().iter().map(|x| *x as u64).collect()
        }
        UKind::OptF64 | UKind::OptF32 => {
            let mut s = OptDensMinHash::<f64, &[u8], H>::new(m, bh);
            for k in keys {
                s.sketch(k);
            }
            let _ = s.end_sketch();
            s.get_hsketch_u64()
        }
        UKind::RevF64 | UKind::RevF32 => {
            let mut s = RevOptDensMinHash::<f64, &[u8], H>::new(m, bh);
            for k in keys {
                s.sketch(k);
            }
            let _ = s.end_sketch();
            s.get_hsketch_u64()
        }
    }
}

/// the same byte strings stored at `shift` bytes past an 8-byte boundary
fn shifted_copy(ids: &[u64], shift: usize) -> (Vec<u64>, usize) {
    // backing store of u64 words: its start is 8-aligned whatever the allocator does
    (vec![0u64; ids.len() + 1], shift % 8)
}

/// C12 for keys that live in the caller's memory: the same 8-byte strings held at different addresses
/// (8-aligned, at every other offset, in another thread's buffer) must give the same sketch
fn slice_key_replicas(ctx: &mut Ctx, spec: &USpec, ids: &[u64]) -> Result<(), Violation> {
    fn run<H: std::hash::Hasher + Default>(spec: &USpec, ids: &[u64], shift: usize) -> Vec<u64> {
        let (mut words, shift) = shifted_copy(ids, shift);
        let bytes: &mut [u8] = unsafe { std::slice::from_raw_parts_mut(words.as_mut_ptr() as *mut u8, words.len() * 8) };
        for (k, id) in ids.iter().enumerate() {
            bytes[shift + 8 * k..shift + 8 * k + 8].copy_from_slice(&id.to_ne_bytes());
        }
        let bytes: &[u8] = bytes;
        let keys: Vec<&[u8]> = (0..ids.len()).map(|k| &bytes[shift + 8 * k..shift + 8 * k + 8]).collect();
        sketch_slices::<H>(spec, &keys)
    }
    fn all<H: std::hash::Hasher + Default>(ctx: &mut Ctx, spec: &USpec, ids: &[u64], hname: &str) -> Result<(), Violation> {
        let reference = run::<H>(spec, ids, 0);
        for shift in [0usize, 1, 2, 3, 4, 5, 6, 7] {
            ctx.count("fault:same-key-bytes-at-another-address");
            let other = if shift == 4 {
                // this copy lives in, and is sketched by, another thread
                std::thread::scope(|sc| sc.spawn(|| run::<H>(spec, ids, shift)).join().unwrap())
            } else {
                run::<H>(spec, ids, shift)
            };
            let same = other == reference;
            ctx.check("C12", "same-key-bytes-at-another-address-agree", same, || {
                format!(
                    "{:?} m {} hasher {} over {} byte-slice keys: the sketch of the keys stored {} bytes past an 8-byte boundary differs from the sketch of the same bytes stored aligned",
                    spec.kind,
                    spec.m,
                    hname,
                    ids.len(),
                    shift
                )
            })?;
        }
        Ok(())
    }
    ctx.ev("slice-key-replicas", ids.len() as u64);
    all::<probminhash::nohasher::NoHashHasher>(ctx, spec, ids, "nohasher::NoHashHasher")?;
    // the crate has a second public hasher of that name, next to SuperMinHash
    all::<probminhash::superminhasher::NoHashHasher>(ctx, spec, ids, "superminhasher::NoHashHasher")?;
    all::<fnv::FnvHasher>(ctx, spec, ids, "FnvHasher")?;
    all::<crate::hashers::SimA>(ctx, spec, ids, "SimA")
}

/// a job executed step by step: step 0 constructs, steps 1..=n deliver, output() reads
enum Exec {
    U { node: Box<dyn UNode>, plan: StreamPlan },
    W { node: Box<dyn WNode>, plan: WPlan, pairs: Vec<(u64, f64)>, salt: u64 },
    O { sk: Box<dyn FnMut(&[u64]) -> Vec<u64>>, plan: OrdPlan, out: Vec<u64> },
}

pub fn nsteps(job: &Job) -> usize {
    1 + match job {
        Job::U(p) => p.events.len(),
        Job::W(p) => p.events.len(),
        Job::O(p) => p.prehistory.len() + 1,
    }
}

impl Exec {
    /// salt: per replica key of the input HashMaps (each process / thread has its own RandomState keys)
    fn construct(job: &Job, salt: u64) -> Exec {
        match job {
            Job::U(p) => Exec::U { node: make_unode(&p.spec), plan: p.clone() },
            Job::W(p) => Exec::W { node: make_wnode(p), plan: p.clone(), pairs: pairs_of(p), salt },
            Job::O(p) => Exec::O { sk: make_ord(p.hash, p.m, p.l), plan: p.clone(), out: vec![] },
        }
    }
    /// delivery step i (1-based)
    fn step(&mut self, i: usize) {
        match self {
            Exec::U { node, plan } => match &plan.events[i - 1] {
                SEv::Item(x) => node.deliver(*x),
                SEv::Chunk(c) => {
                    node.chunk(c);
                }
                SEv::Finish => node.finish(),
            },
            Exec::W { node, plan, pairs, salt } => {
                let get = |v: &Vec<usize>| -> Vec<(u64, f64)> { v.iter().map(|i| pairs[*i]).collect() };
                match &plan.events[i - 1] {
                    WEv::Item(k) => node.item(pairs[*k].0, pairs[*k].1),
                    WEv::WSet(v) => node.wset(&get(v)),
                    WEv::IdxMap(v) => node.idxmap(&get(v)),
                    WEv::HMap { items, hseed } => {
                        node.hmap(&get(items), *hseed ^ salt.wrapping_mul(0x9E37_79B9_7F4A_7C15));
                    }
                    WEv::HMapStd(v) => {
                        node.hmap_std(&get(v));
                    }
                }
            }
            Exec::O { sk, plan, out } => {
                if i - 1 < plan.prehistory.len() {
                    let _ = sk(&plan.prehistory[i - 1]);
                } else {
                    *out = sk(&plan.seq);
                }
            }
        }
    }
    fn output(&mut self) -> Vec<u64> {
        match self {
            Exec::U { node, plan } => {
                if plan.spec.kind.is_dens() {
                    if let Some(st) = node.dens_state() {
                        if st.nb_empty > 0 {
                            node.finish();
                        }
                    }
                }
                let mut o = vec![];
                for v in node.views() {
                    o.push(v.1.len() as u64);
                    o.extend(v.1);
                }
                o
            }
            Exec::W { node, .. } => {
                let mut o = node.sig();
                o.extend(node.regs().0.iter().map(|x| x.to_bits()));
                o
            }
            Exec::O { out, .. } => out.clone(),
        }
    }
}

/// a sketcher of the same type and size as the job's, with other parameters / input, built, used and dropped
fn decoy(job: &Job, code: u8) {
    match job {
        Job::U(p) => {
            let mut spec = p.spec.clone();
            if let Some(sp) = spec.setp.as_mut() {
                sp.a_bits = (sp.a() * 2.0).to_bits();
            }
            let mut n = make_unode(&spec);
            for k in 0..3u64 {
                n.deliver(1_000_003 * (code as u64 + 1) + k);
            }
            if spec.kind.is_dens() {
                n.finish();
            }
            std::hint::black_box(n.views().len());
        }
        Job::W(p) => {
            let mut n = make_wnode(p);
            let pairs = [(77u64 + code as u64, 3.5f64), (78 + code as u64, 0.25)];
            match p.variant {
                crate::sc_wstream::Variant::Pmh2 | crate::sc_wstream::Variant::Pmh3 => {
                    for (i, w) in pairs {
                        n.item(i, w);
                    }
                }
                _ => n.idxmap(&pairs),
            }
            std::hint::black_box(n.sig().len());
        }
        Job::O(p) => {
            let mut sk = make_ord(p.hash, p.m, p.l);
            let s: Vec<u64> = (0..(p.l as u64 + 3)).map(|k| k % 3 + code as u64).collect();
            std::hint::black_box(sk(&s).len());
        }
    }
}

/// ambient-state perturbations executed in the replica's own thread before a step
fn perturb(code: u8, job: &Job) {
    use rand::RngCore;
    match code % 8 {
        6 | 7 => decoy(job, code),
        1 => {
            // draws from the per-thread generator
            let mut r = rand::rng();
            for _ in 0..(code as usize / 8 + 1) {
                std::hint::black_box(r.next_u64());
            }
        }
        2 => {
            // maps keyed by the per-process / per-thread RandomState
            let mut h = std::collections::HashMap::new();
            for k in 0..(code as u64 + 3) {
                h.insert(k, k);
            }
            std::hint::black_box(h.len());
        }
        3 => {
            // heap churn: shifts which blocks the next allocations get
            let v: Vec<Vec<u8>> = (0..(code as usize % 13 + 1)).map(|k| vec![0xEE; 16 << (k % 9)]).collect();
            std::hint::black_box(v.len());
        }
        4 => {
            // unrelated sketchers built, used and dropped
            let mut s = probminhash::probminhasher::probordminhash2::ProbOrdMinHash2::<fnv::FnvHasher>::new(4, 1);
            std::hint::black_box(s.hash_set(&[1u64, 2, 3, code as u64]));
            let mut t = probminhash::superminhasher::SuperMinHash::<f64, u64, fnv::FnvHasher>::new(8, Default::default());
            let _ = t.sketch(&(code as u64));
        }
        5 => {
            let mut s = probminhash::probminhasher::probordminhash2::ProbOrdMinHash2::<fnv::FnvHasher>::new(3, 2);
            s.change_rng_seed();
            std::hint::black_box(s.hash_set(&[7u64, 8, 9]));
        }
        _ => {}
    }
}

/// runs the whole job in this thread without a scheduler (child process / reference)
pub fn run_job_plain(job: &Job, salt: u64) -> Vec<u64> {
    let mut e = Exec::construct(job, salt);
    for i in 1..nsteps(job) {
        e.step(i);
    }
    e.output()
}

struct SilentTraceLogger;
impl log::Log for SilentTraceLogger {
    fn enabled(&self, _m: &log::Metadata) -> bool {
        true
    }
    fn log(&self, _r: &log::Record) {}
    fn flush(&self) {}
}
static SILENT_TRACE: SilentTraceLogger = SilentTraceLogger;

pub fn replica_child_main(path: &str, salt: u64) -> i32 {
    // per-process ambient state: a logger that enables every level (silently) may be installed in this process
    if std::env::var("VERIF_LOG_TRACE").is_ok() && log::set_logger(&SILENT_TRACE).is_ok() {
        log::set_max_level(log::LevelFilter::Trace);
    }
    let text = match std::fs::read_to_string(path) {
        Ok(t) => t,
        Err(_) => return 2,
    };
    let job: Job = match serde_json::from_str(&text) {
        Ok(j) => j,
        Err(_) => return 2,
    };
    let out = run_job_plain(&job, salt);
    let s: Vec<String> = out.iter().map(|x| format!("{:x}", x)).collect();
    println!("REPLICA-OUT {}", s.join(","));
    0
}

enum Cmd {
    Step(usize, u8),
    Output,
}

impl Replicas {
    /// all replicas run the complete job concurrently (real parallelism); outputs must still be identical
    fn execute_free_running(&self, plan: &ReplicaPlan, ctx: &mut Ctx) -> Result<(), Violation> {
        let k = (plan.inline_replicas + plan.thread_replicas).max(2);
        let job = &plan.job;
        ctx.ev("free-running-replicas", k as u64);
        ctx.count("fault:replicas-truly-concurrent");
        let barrier = std::sync::Barrier::new(k);
        let outs: Vec<Result<Vec<u64>, String>> = std::thread::scope(|scope| {
            let hs: Vec<_> = (0..k)
                .map(|r| {
                    let barrier = &barrier;
                    scope.spawn(move || {
                        barrier.wait();
                        caught(|| run_job_plain(job, r as u64))
                    })
                })
                .collect();
            hs.into_iter().map(|h| h.join().unwrap_or_else(|_| Err("replica thread died".into()))).collect()
        });
        let mut good = vec![];
        for o in outs {
            match o {
                Ok(v) => good.push(v),
                Err(msg) => return Err(Violation { property: ctx.target.clone(), oracle: "unexpected-panic".into(), key: String::new(), detail: msg }),
            }
        }
        // reference: the same job alone in this thread afterwards
        let alone = run_job_plain(job, 77);
        for x in &alone {
            ctx.out.add(*x);
        }
        for (r, o) in good.iter().enumerate() {
            let bad = (0..alone.len().max(o.len())).find(|p| alone.get(*p) != o.get(*p));
            ctx.check("C12", "concurrently-running-instances-agree", bad.is_none(), || {
                format!("replica {} of {} running concurrently differs from the same job run alone at output word {:?}", r, k, bad)
            })?;
        }
        ctx.nontrivial = nsteps(job) >= 2;
        Ok(())
    }
}

impl Scenario for Replicas {
    type Plan = ReplicaPlan;
    fn name(&self) -> &'static str {
        "replicas"
    }
    fn generate(&self, rng: &mut Rng, tier: Tier, target: &str) -> ReplicaPlan {
        let job = match rng.below(10) {
            0..=3 => Job::U(small_stream(Stream.generate(rng, Tier::Quick, target))),
            4..=6 => Job::W(small_w(WStream.generate(rng, Tier::Quick, target))),
            _ => {
                let mut p = OrdSeq.generate(rng, Tier::Quick, target);
                p.perms.clear();
                p.between_calls = 0;
                Job::O(p)
            }
        };
        let inline_replicas = rng.urange(1, 2);
        let thread_replicas = rng.urange(1, 3);
        let pfrac = if tier == Tier::Thorough { 0.2 } else { 0.1 };
        let process_replicas = if rng.chance(pfrac) { (0..rng.urange(1, 2)).map(|_| rng.below(256) as u8).collect() } else { vec![] };
        let total = inline_replicas + thread_replicas;
        let n = nsteps(&job);
        let p_perturb = *rng.pick(&[0.0, 0.2, 0.6]);
        // interleaving style: random, replica after replica, or lock step
        let style = rng.below(3);
        let mut schedule = vec![];
        for t in 0..(n * total) {
            let r = match style {
                0 => rng.usize_below(total),
                1 => t / n,
                _ => t % total,
            };
            let code = if rng.chance(p_perturb) { rng.below(256) as u8 } else { 0 };
            schedule.push((r, code));
        }
        let free_running = rng.chance(0.08);
        ReplicaPlan { job, inline_replicas, thread_replicas, process_replicas, schedule, free_running }
    }

    fn execute(&self, plan: &ReplicaPlan, ctx: &mut Ctx) -> Result<(), Violation> {
        // the per-thread allocation tracker cannot follow blocks that are allocated in one thread and
        // freed in another (channel messages): it is switched off for this multi-threaded scenario
        let _ = crate::alloc_track::disarm();
        let total = plan.inline_replicas + plan.thread_replicas;
        let n = nsteps(&plan.job);
        ctx.sched.add(crate::prng::hash_str(&serde_json::to_string(&plan.job).unwrap()));
        if let Job::U(sp) = &plan.job {
            if sp.spec.m <= 128 && !sp.items.is_empty() && sp.items.len() <= 400 {
                slice_key_replicas(ctx, &sp.spec, &sp.items)?;
            }
        }
        if plan.free_running {
            return self.execute_free_running(plan, ctx);
        }
        let mut next_step = vec![0usize; total];
        let mut inline: Vec<Option<Exec>> = (0..plan.inline_replicas).map(|_| None).collect();
        let mut outputs: Vec<Option<Vec<u64>>> = vec![None; total];
        let job = &plan.job;

        let result: Result<(), String> = std::thread::scope(|scope| {
            // replica threads: wait for the token, run exactly one operation, hand the token back
            let mut chans: Vec<(mpsc::Sender<Cmd>, mpsc::Receiver<Result<Option<Vec<u64>>, String>>)> = vec![];
            for tr in 0..plan.thread_replicas {
                let salt = (plan.inline_replicas + tr) as u64;
                let (ctx_tx, ctx_rx) = mpsc::channel::<Cmd>();
                let (done_tx, done_rx) = mpsc::channel();
                scope.spawn(move || {
                    let mut ex: Option<Exec> = None;
                    while let Ok(cmd) = ctx_rx.recv() {
                        let r = caught(|| match cmd {
                            Cmd::Step(i, code) => {
                                perturb(code, job);
                                if i == 0 {
                                    ex = Some(Exec::construct(job, salt));
                                } else {
                                    ex.as_mut().unwrap().step(i);
                                }
                                None
                            }
                            Cmd::Output => Some(ex.as_mut().unwrap().output()),
                        });
                        if done_tx.send(r).is_err() {
                            break;
                        }
                    }
                });
                chans.push((ctx_tx, done_rx));
            }
            let mut run_step = |ctx: &mut Ctx, r: usize, code: u8, next_step: &mut Vec<usize>, inline: &mut Vec<Option<Exec>>| -> Result<(), String> {
                let i = next_step[r];
                if i >= n {
                    return Ok(());
                }
                ctx.ev(if i == 0 { "construct" } else { "operation" }, (r as u64) << 32 | i as u64);
                if code % 8 != 0 {
                    ctx.count("fault:ambient-state-perturbed");
                }
                if r < plan.inline_replicas {
                    perturb(code, job);
                    if i == 0 {
                        inline[r] = Some(Exec::construct(job, r as u64));
                    } else {
                        inline[r].as_mut().unwrap().step(i);
                    }
                } else {
                    let (tx, rx) = &chans[r - plan.inline_replicas];
                    tx.send(Cmd::Step(i, code)).map_err(|_| "replica thread gone".to_string())?;
                    match rx.recv() {
                        Ok(Ok(_)) => {}
                        Ok(Err(msg)) => return Err(msg),
                        Err(_) => return Err("replica thread died".into()),
                    }
                }
                next_step[r] += 1;
                Ok(())
            };
            let mut switches = 0u64;
            let mut last = usize::MAX;
            for (r, code) in &plan.schedule {
                let r = *r % total;
                if next_step[r] < n {
                    if last != usize::MAX && last != r {
                        switches += 1;
                    }
                    last = r;
                }
                run_step(ctx, r, *code, &mut next_step, &mut inline)?;
            }
            // drain
            loop {
                let mut progressed = false;
                for r in 0..total {
                    if next_step[r] < n {
                        run_step(ctx, r, 0, &mut next_step, &mut inline)?;
                        progressed = true;
                    }
                }
                if !progressed {
                    break;
                }
            }
            ctx.count_n("fault:replica-context-switches", switches);
            for r in 0..total {
                outputs[r] = Some(if r < plan.inline_replicas {
                    inline[r].as_mut().unwrap().output()
                } else {
                    let (tx, rx) = &chans[r - plan.inline_replicas];
                    tx.send(Cmd::Output).map_err(|_| "replica thread gone".to_string())?;
                    match rx.recv() {
                        Ok(Ok(Some(o))) => o,
                        Ok(Err(msg)) => return Err(msg),
                        _ => return Err("replica thread died".into()),
                    }
                });
            }
            drop(chans);
            Ok(())
        });
        if let Err(msg) = result {
            return Err(Violation { property: ctx.target.clone(), oracle: "unexpected-panic".into(), key: String::new(), detail: msg });
        }
        let outs: Vec<Vec<u64>> = outputs.into_iter().map(|o| o.unwrap()).collect();
        for x in &outs[0] {
            ctx.out.add(*x);
        }
        let kind = match &plan.job {
            Job::U(p) => format!("{:?}", p.spec.kind),
            Job::W(p) => format!("{:?}", p.variant),
            Job::O(_) => "ProbOrdMinHash2".to_string(),
        };
        for r in 1..total {
            let bad = (0..outs[0].len().max(outs[r].len())).find(|p| outs[0].get(*p) != outs[r].get(*p));
            let (where0, where_r) = (if 0 < plan.inline_replicas { "scheduler thread" } else { "own thread" }, if r < plan.inline_replicas { "same thread" } else { "another thread" });
            ctx.check("C12", if r < plan.inline_replicas { "two-instances-in-one-thread-agree" } else { "instances-in-different-threads-agree" }, bad.is_none(), || {
                format!("{}: replica 0 ({}) and replica {} ({}) differ at output word {:?}: {:#x?} vs {:#x?}", kind, where0, r, where_r, bad, bad.and_then(|p| outs[0].get(p)), bad.and_then(|p| outs[r].get(p)))
            })?;
        }
        // child processes
        if !plan.process_replicas.is_empty() {
            let dir = crate::sc_paramfile::scratch_root();
            let _ = std::fs::create_dir_all(&dir);
            static SEQ: std::sync::atomic::AtomicU64 = std::sync::atomic::AtomicU64::new(0);
            let path = dir.join(format!("job-{}-{}.json", std::process::id(), SEQ.fetch_add(1, std::sync::atomic::Ordering::Relaxed)));
            std::fs::write(&path, serde_json::to_string(&plan.job).unwrap()).expect("harness: write job");
            for (k, perturb_byte) in plan.process_replicas.iter().enumerate() {
                ctx.ev("child-process", *perturb_byte as u64);
                ctx.count("fault:fresh-process-aslr-randomstate-malloc-perturb");
                if perturb_byte % 2 == 1 {
                    ctx.count("fault:child-process-with-trace-level-logger");
                }
                let o = std::process::Command::new(std::env::current_exe().unwrap())
                    .arg("replica")
                    .arg(&path)
                    .arg((100 + k).to_string())
                    .env("MALLOC_PERTURB_", perturb_byte.to_string())
                    .envs(if perturb_byte % 2 == 1 { vec![("VERIF_LOG_TRACE", "1")] } else { vec![] })
                    .output()
                    .expect("harness: cannot start replica child");
                let text = String::from_utf8_lossy(&o.stdout).to_string();
                let line = text.lines().rev().find(|l| l.starts_with("REPLICA-OUT"));
                let child: Option<Vec<u64>> = line.map(|l| l["REPLICA-OUT".len()..].trim().split(',').filter(|s| !s.is_empty()).map(|s| u64::from_str_radix(s, 16).unwrap()).collect());
                ctx.check("C12", "child-process-completes", o.status.code() == Some(0) && child.is_some(), || {
                    format!("{}: replica in child process {} ended with status {:?}", kind, k, o.status)
                })?;
                let child = child.unwrap();
                let bad = (0..outs[0].len().max(child.len())).find(|p| outs[0].get(*p) != child.get(*p));
                ctx.check("C12", "instances-in-different-processes-agree", bad.is_none(), || {
                    format!("{}: replica 0 and the replica in child process {} differ at output word {:?}: {:#x?} vs {:#x?}", kind, k, bad, bad.and_then(|p| outs[0].get(p)), bad.and_then(|p| child.get(p)))
                })?;
            }
            let _ = std::fs::remove_file(&path);
        }
        ctx.nontrivial = n >= 2;
        Ok(())
    }

    fn shrink(&self, plan: &ReplicaPlan) -> Vec<ReplicaPlan> {
        let mut out = vec![];
        if !plan.process_replicas.is_empty() {
            let mut p = plan.clone();
            p.process_replicas.clear();
            out.push(p);
        }
        if plan.free_running {
            let mut p = plan.clone();
            p.free_running = false;
            out.push(p);
        }
        if plan.thread_replicas > 1 {
            let mut p = plan.clone();
            p.thread_replicas -= 1;
            out.push(p);
        }
        if plan.inline_replicas > 1 {
            let mut p = plan.clone();
            p.inline_replicas -= 1;
            out.push(p);
        }
        if plan.inline_replicas == 1 && plan.thread_replicas >= 1 {
            // only in-thread replicas
            let mut p = plan.clone();
            p.inline_replicas = 2;
            p.thread_replicas = 0;
            out.push(p);
        }
        if !plan.schedule.is_empty() {
            let mut p = plan.clone();
            p.schedule.clear();
            out.push(p);
            if plan.schedule.iter().any(|s| s.1 != 0) {
                let mut p = plan.clone();
                p.schedule.iter_mut().for_each(|s| s.1 = 0);
                out.push(p);
            }
        }
        // shrink the job with its own scenario's shrinker
        match &plan.job {
            Job::U(j) => {
                for c in Stream.shrink(j).into_iter().take(60) {
                    let mut p = plan.clone();
                    p.job = Job::U(c);
                    out.push(p);
                }
            }
            Job::W(j) => {
                for c in WStream.shrink(j).into_iter().take(60) {
                    let mut p = plan.clone();
                    p.job = Job::W(c);
                    out.push(p);
                }
            }
            Job::O(j) => {
                for c in OrdSeq.shrink(j).into_iter().take(60) {
                    let mut p = plan.clone();
                    p.job = Job::O(c);
                    out.push(p);
                }
            }
        }
        out
    }

    fn doc(&self) -> Doc {
        Doc {
            rule: "seeded job (any of the 10 unweighted sketcher instantiations, the 4 ProbMinHash variants incl. every Sig key type, ProbOrdMinHash2; inputs and delivery schedules from the stream / wstream / ordseq generators) executed by 2..5 replicas: 1..2 in the scheduler's thread, 1..3 in their own OS threads under a seeded token scheduler (one operation at a time, constructions included; styles: random interleaving, replica after replica, lock step), and in 4% (thorough 10%) of the runs 1..2 child processes; ambient-state perturbations between operations; non-trivial = job with >= 2 steps; distinct = distinct (job, schedule) fingerprints",
            real: &["every sketcher of the crate", "real OS threads (thread-local state such as ThreadRng is real)", "real child processes (ASLR, RandomState keys, MALLOC_PERTURB_)"],
            stub: &["who runs next: decided by the seeded token scheduler, never by the OS (threads are parked on a channel and released one operation at a time)"],
            assumptions: &[
                "process-level nondeterminism (ASLR, RandomState) is not controllable; it is used only with an equality oracle that holds on every execution of correct code",
                "change_rng_seed() is random by documented design and is only called on unrelated perturbation instances",
            ],
        }
    }
}

fn small_stream(mut p: StreamPlan) -> StreamPlan {
    // keep replica jobs short: the schedule has one tick per operation and replica
    if p.events.len() > 60 {
        let items: std::collections::BTreeSet<u64> = p
            .events
            .iter()
            .take(60)
            .flat_map(|e| match e {
                SEv::Item(i) => vec![*i],
                SEv::Chunk(c) => c.clone(),
                SEv::Finish => vec![],
            })
            .collect();
        p.events.truncate(60);
        p.items = items.into_iter().collect();
        if p.spec.kind.is_dens() && !matches!(p.events.last(), Some(SEv::Chunk(_))) {
            p.events.push(SEv::Finish);
        }
    }
    p
}
fn small_w(mut p: WPlan) -> WPlan {
    if p.events.len() > 60 {
        p.events.truncate(60);
    }
    p.scale_exp = 0;
    p.split.clear();
    p
}
