//! C02 (and C15 in vivo) — a ProbMinHash signature is a function of the weighted set alone.
//! A source owns a weighted set; the network delivers the (item, weight) pairs item-wise, through a
//! weighted-set iterator, as IndexMap or HashMap batches (HashMap iteration order decided by a
//! seeded BuildHasher), reordered, duplicated, split over several batches.

use crate::core::*;
use crate::hashers::*;
use crate::nodes::{ElemT, HashT};
use crate::prng::Rng;
use fnv::FnvHasher;
use indexmap::IndexMap;
use probminhash::nohasher::NoHashHasher;
use probminhash::probminhasher::sig::Sig;
use probminhash::probminhasher::{ProbMinHash2, ProbMinHash3, ProbMinHash3a, ProbMinHash3aSha};
use probminhash::weightedset::WeightedSet;
use serde::{Deserialize, Serialize};
use std::collections::hash_map::RandomState;
use std::collections::{BTreeMap, BTreeSet, HashMap};
use std::fmt::Debug;
use std::hash::{BuildHasher, Hash, Hasher};

#[derive(Serialize, Deserialize, Clone, Copy, Debug, PartialEq, Eq)]
pub enum Variant {
    Pmh2,
    Pmh3,
    Pmh3a,
    Sha,
}

#[derive(Serialize, Deserialize, Clone, Copy, Debug, PartialEq, Eq)]
pub enum ShaKey {
    U64,
    U32,
    VecU8,
    Str,
    VecU16,
    VecU32,
}

#[derive(Serialize, Deserialize, Clone, Debug, PartialEq)]
pub enum WEv {
    /// hash_item(id, w) for the pair at this index of the weighted set
    Item(usize),
    /// hash_wset over an iterator yielding these pairs
    WSet(Vec<usize>),
    /// hash_weigthed_idxmap with these pairs in this insertion order
    IdxMap(Vec<usize>),
    /// hash_weigthed_hashmap; iteration order follows from the seeded BuildHasher
    HMap { items: Vec<usize>, hseed: u64 },
    /// ProbMinHash2 only: std HashMap with RandomState (order not controllable, observed)
    HMapStd(Vec<usize>),
}

#[derive(Serialize, Deserialize, Clone, Debug)]
pub struct WPlan {
    pub variant: Variant,
    pub elem: ElemT,
    pub shakey: ShaKey,
    pub hash: HashT,
    pub m: usize,
    /// (id, weight bits), distinct ids
    pub wset: Vec<(u64, u64)>,
    pub events: Vec<WEv>,
    /// all weights multiplied by 2^scale_exp for the scaling oracle (0 = not checked)
    pub scale_exp: i32,
    /// per item: 0 = only in A, 1 = only in B, 2 = in both (union oracle); empty = not checked
    pub split: Vec<u8>,
    /// weights at the very bottom of the f64 range (known finding K1)
    pub tiny: bool,
    /// ProbMinHash3a / 3aSha accept entries of weight 0 (they are no members of the weighted set): ids of such
    /// ghost entries interleaved into every map delivery
    #[serde(default)]
    pub ghosts: Vec<u64>,
    /// Sha variant with byte-string keys: every key gets a common prefix of 150+ bytes
    #[serde(default)]
    pub long_keys: bool,
}

// ------------------------------------------------------------------------------------------
// seeded BuildHasher for the input maps

#[derive(Clone)]
pub struct SeedBH(pub u64);
pub struct SeedH(u64);
impl BuildHasher for SeedBH {
    type Hasher = SeedH;
    fn build_hasher(&self) -> SeedH {
        SeedH(self.0 ^ 0xcbf2_9ce4_8422_2325)
    }
}
impl Hasher for SeedH {
    fn write(&mut self, bytes: &[u8]) {
        for b in bytes {
            self.0 = (self.0 ^ (*b as u64)).wrapping_mul(0x1000_0000_01b3);
        }
    }
    fn finish(&self) -> u64 {
        let mut x = self.0;
        crate::prng::splitmix(&mut x)
    }
}

// weighted set adaptor for hash_wset
struct WIter<D: Clone + Eq> {
    items: Vec<(D, f64)>,
    pos: usize,
}
impl<D: Clone + Eq> Iterator for WIter<D> {
    type Item = D;
    fn next(&mut self) -> Option<D> {
        let r = self.items.get(self.pos).map(|x| x.0.clone());
        self.pos += 1;
        r
    }
}
impl<D: Clone + Eq> WeightedSet for WIter<D> {
    type Object = D;
    fn get_weight(&self, obj: &D) -> f64 {
        self.items.iter().find(|x| x.0 == *obj).map(|x| x.1).unwrap()
    }
}

pub trait Key: Clone + Eq + Debug + Hash + 'static {
    fn from_id(id: u64) -> Self;
    fn to_id(&self) -> u64;
}
macro_rules! key_int {
    ($t:ty) => {
        impl Key for $t {
            fn from_id(id: u64) -> $t {
                id as $t
            }
            fn to_id(&self) -> u64 {
                *self as u64
            }
        }
    };
}
key_int!(u64);
key_int!(u32);
key_int!(usize);
/// ids carrying this flag are mapped to long keys: 150 constant leading elements, then the identity
/// (Vec<u16>: 70 leading elements, Vec<u32>: 40)
pub const LONG_KEY: u64 = 1 << 44;
/// this id is mapped to the empty vector / string by the byte-string key types
pub const EMPTY_KEY: u64 = 0xffff_ff77;

impl Key for Vec<u8> {
    fn from_id(id: u64) -> Self {
        if id & LONG_KEY != 0 {
            let mut v = vec![0xABu8; 150];
            v.extend_from_slice(&(id & !LONG_KEY).to_le_bytes());
            return v;
        }
        if id == EMPTY_KEY {
            return vec![];
        }
        // variable length: ids below 256 are one byte long
        let b = id.to_le_bytes();
        let n = (8 - (id.leading_zeros() / 8) as usize).max(1);
        b[..n].to_vec()
    }
    fn to_id(&self) -> u64 {
        if self.len() > 8 {
            let mut b = [0u8; 8];
            b.copy_from_slice(&self[150..158]);
            return u64::from_le_bytes(b) | LONG_KEY;
        }
        if self.is_empty() {
            return EMPTY_KEY;
        }
        let mut b = [0u8; 8];
        b[..self.len()].copy_from_slice(self);
        u64::from_le_bytes(b)
    }
}
impl Key for String {
    fn from_id(id: u64) -> Self {
        if id & LONG_KEY != 0 {
            return format!("{}item-{}", "prefix-".repeat(30), id & !LONG_KEY);
        }
        if id == EMPTY_KEY {
            return String::new();
        }
        format!("item-{}", id)
    }
    fn to_id(&self) -> u64 {
        if self.is_empty() {
            return EMPTY_KEY;
        }
        if let Some(rest) = self.strip_prefix(&"prefix-".repeat(30)) {
            return rest[5..].parse::<u64>().unwrap() | LONG_KEY;
        }
        self[5..].parse().unwrap()
    }
}
impl Key for Vec<u16> {
    fn from_id(id: u64) -> Self {
        if id & LONG_KEY != 0 {
            let mut v = vec![0xABCDu16; 70];
            v.extend(<Vec<u16> as Key>::from_id(id & !LONG_KEY));
            return v;
        }
        if id == EMPTY_KEY {
            return vec![];
        }
        let n = (4 - (id.leading_zeros() / 16) as usize).max(1);
        (0..n).map(|k| (id >> (16 * k)) as u16).collect()
    }
    fn to_id(&self) -> u64 {
        if self.len() > 4 {
            return self[70..].to_vec().to_id() | LONG_KEY;
        }
        if self.is_empty() {
            return EMPTY_KEY;
        }
        self.iter().enumerate().map(|(k, v)| (*v as u64) << (16 * k)).sum()
    }
}
impl Key for Vec<u32> {
    fn from_id(id: u64) -> Self {
        if id & LONG_KEY != 0 {
            let mut v = vec![0xABCD_EF01u32; 40];
            v.extend(<Vec<u32> as Key>::from_id(id & !LONG_KEY));
            return v;
        }
        if id == EMPTY_KEY {
            return vec![];
        }
        if id >> 32 == 0 {
            vec![id as u32]
        } else {
            vec![id as u32, (id >> 32) as u32]
        }
    }
    fn to_id(&self) -> u64 {
        if self.len() > 2 {
            return self[40..].to_vec().to_id() | LONG_KEY;
        }
        if self.is_empty() {
            return EMPTY_KEY;
        }
        self.iter().enumerate().map(|(k, v)| (*v as u64) << (32 * k)).sum()
    }
}

/// placeholder id: never part of a generated set
pub const PLACEHOLDER: u64 = 0xffff_fffe;

pub trait WNode {
    fn item(&mut self, id: u64, w: f64);
    fn wset(&mut self, pairs: &[(u64, f64)]);
    fn idxmap(&mut self, pairs: &[(u64, f64)]);
    fn hmap(&mut self, pairs: &[(u64, f64)], hseed: u64) -> Vec<u64>;
    fn hmap_std(&mut self, pairs: &[(u64, f64)]) -> Vec<u64>;
    fn sig(&self) -> Vec<u64>;
    fn regs(&self) -> (Vec<f64>, f64);
    fn reset(&mut self) -> bool {
        false
    }
}

fn to_idx<D: Key>(pairs: &[(u64, f64)]) -> IndexMap<D, f64, SeedBH> {
    to_idx_f::<D>(pairs, 0)
}
fn to_idx_f<D: Key>(pairs: &[(u64, f64)], flag: u64) -> IndexMap<D, f64, SeedBH> {
    let mut mp = IndexMap::with_hasher(SeedBH(7));
    for (i, w) in pairs {
        mp.insert(D::from_id(*i | flag), *w);
    }
    mp
}
fn to_hm<D: Key>(pairs: &[(u64, f64)], hseed: u64) -> HashMap<D, f64, SeedBH> {
    to_hm_f::<D>(pairs, hseed, 0)
}
fn to_hm_f<D: Key>(pairs: &[(u64, f64)], hseed: u64, flag: u64) -> HashMap<D, f64, SeedBH> {
    let mut mp = HashMap::with_hasher(SeedBH(hseed));
    for (i, w) in pairs {
        mp.insert(D::from_id(*i | flag), *w);
    }
    mp
}

struct N2<D: Key + Copy, H: Hasher + Default>(ProbMinHash2<D, H>);
impl<D: Key + Copy, H: Hasher + Default> WNode for N2<D, H> {
    fn item(&mut self, id: u64, w: f64) {
        self.0.hash_item(D::from_id(id), w);
    }
    fn wset(&mut self, pairs: &[(u64, f64)]) {
        let mut it = WIter { items: pairs.iter().map(|(i, w)| (D::from_id(*i), *w)).collect(), pos: 0 };
        self.0.hash_wset(&mut it);
    }
    fn idxmap(&mut self, _pairs: &[(u64, f64)]) {
        unreachable!("ProbMinHash2 has no IndexMap entry point")
    }
    fn hmap(&mut self, _pairs: &[(u64, f64)], _hseed: u64) -> Vec<u64> {
        unreachable!("ProbMinHash2 takes a std HashMap only")
    }
    fn hmap_std(&mut self, pairs: &[(u64, f64)]) -> Vec<u64> {
        let mut mp: HashMap<D, f64> = HashMap::new();
        for (i, w) in pairs {
            mp.insert(D::from_id(*i), *w);
        }
        let order = mp.keys().map(|k| k.to_id()).collect();
        self.0.hash_weigthed_hashmap::<RandomState>(&mp);
        order
    }
    fn sig(&self) -> Vec<u64> {
        self.0.get_signature().iter().map(|d| d.to_id()).collect()
    }
    fn regs(&self) -> (Vec<f64>, f64) {
        self.0.verif_registers()
    }
    fn reset(&mut self) -> bool {
        self.0.reset();
        true
    }
}

struct N3<D: Key + Copy, H: Hasher + Default>(ProbMinHash3<D, H>);
impl<D: Key + Copy, H: Hasher + Default> WNode for N3<D, H> {
    fn item(&mut self, id: u64, w: f64) {
        self.0.hash_item(D::from_id(id), &w);
    }
    fn wset(&mut self, pairs: &[(u64, f64)]) {
        let mut it = WIter { items: pairs.iter().map(|(i, w)| (D::from_id(*i), *w)).collect(), pos: 0 };
        self.0.hash_wset(&mut it);
    }
    fn idxmap(&mut self, pairs: &[(u64, f64)]) {
        self.0.hash_weigthed_idxmap(&to_idx::<D>(pairs));
    }
    fn hmap(&mut self, pairs: &[(u64, f64)], hseed: u64) -> Vec<u64> {
        let mp = to_hm::<D>(pairs, hseed);
        let order = mp.keys().map(|k| k.to_id()).collect();
        self.0.hash_weigthed_hashmap(&mp);
        order
    }
    fn hmap_std(&mut self, _pairs: &[(u64, f64)]) -> Vec<u64> {
        unreachable!()
    }
    fn sig(&self) -> Vec<u64> {
        self.0.get_signature().iter().map(|d| d.to_id()).collect()
    }
    fn regs(&self) -> (Vec<f64>, f64) {
        self.0.verif_registers()
    }
}

struct N3a<D: Key + Copy, H: Hasher + Default>(ProbMinHash3a<D, H>);
impl<D: Key + Copy, H: Hasher + Default> WNode for N3a<D, H> {
    fn item(&mut self, _id: u64, _w: f64) {
        unreachable!("ProbMinHash3a has no item-wise entry point")
    }
    fn wset(&mut self, _pairs: &[(u64, f64)]) {
        unreachable!()
    }
    fn idxmap(&mut self, pairs: &[(u64, f64)]) {
        self.0.hash_weigthed_idxmap(&to_idx::<D>(pairs));
    }
    fn hmap(&mut self, pairs: &[(u64, f64)], hseed: u64) -> Vec<u64> {
        let mp = to_hm::<D>(pairs, hseed);
        let order = mp.keys().map(|k| k.to_id()).collect();
        self.0.hash_weigthed_hashmap(&mp);
        order
    }
    fn hmap_std(&mut self, _pairs: &[(u64, f64)]) -> Vec<u64> {
        unreachable!()
    }
    fn sig(&self) -> Vec<u64> {
        self.0.get_signature().iter().map(|d| d.to_id()).collect()
    }
    fn regs(&self) -> (Vec<f64>, f64) {
        self.0.verif_registers()
    }
}

struct NSha<D: Key + Sig>(ProbMinHash3aSha<D>, u64);
impl<D: Key + Sig> WNode for NSha<D> {
    fn item(&mut self, _id: u64, _w: f64) {
        unreachable!()
    }
    fn wset(&mut self, _pairs: &[(u64, f64)]) {
        unreachable!()
    }
    fn idxmap(&mut self, pairs: &[(u64, f64)]) {
        self.0.hash_weigthed_idxmap(&to_idx_f::<D>(pairs, self.1));
    }
    fn hmap(&mut self, pairs: &[(u64, f64)], hseed: u64) -> Vec<u64> {
        let mp = to_hm_f::<D>(pairs, hseed, self.1);
        let order = mp.keys().map(|k| k.to_id() & !LONG_KEY).collect();
        self.0.hash_weigthed_hashmap(&mp);
        order
    }
    fn hmap_std(&mut self, _pairs: &[(u64, f64)]) -> Vec<u64> {
        unreachable!()
    }
    fn sig(&self) -> Vec<u64> {
        self.0.get_signature().iter().map(|d| d.to_id() & !LONG_KEY).collect()
    }
    fn regs(&self) -> (Vec<f64>, f64) {
        self.0.verif_registers()
    }
}

fn mk_dh<D: Key + Copy, H: Hasher + Default + 'static>(v: Variant, m: usize) -> Box<dyn WNode> {
    let init = <D as Key>::from_id(PLACEHOLDER);
    match v {
        Variant::Pmh2 => Box::new(N2::<D, H>(ProbMinHash2::new(m, init))),
        Variant::Pmh3 => Box::new(N3::<D, H>(ProbMinHash3::new(m, init))),
        Variant::Pmh3a => Box::new(N3a::<D, H>(ProbMinHash3a::new(m, init))),
        Variant::Sha => unreachable!(),
    }
}
fn mk_d<D: Key + Copy>(v: Variant, hash: HashT, m: usize) -> Box<dyn WNode> {
    match hash {
        HashT::NoHash => mk_dh::<D, NoHashHasher>(v, m),
        HashT::SimA => mk_dh::<D, SimA>(v, m),
        HashT::SimB => mk_dh::<D, SimB>(v, m),
        HashT::Ident => mk_dh::<D, IdentHasher>(v, m),
        _ => mk_dh::<D, FnvHasher>(v, m),
    }
}

pub fn make_wnode(p: &WPlan) -> Box<dyn WNode> {
    make_wnode_m(p, p.variant)
}
pub fn make_wnode_m(p: &WPlan, v: Variant) -> Box<dyn WNode> {
    if v == Variant::Sha {
        let m = p.m;
        return match p.shakey {
            ShaKey::U64 => Box::new(NSha::<u64>(ProbMinHash3aSha::new(m, PLACEHOLDER), 0)),
            ShaKey::U32 => Box::new(NSha::<u32>(ProbMinHash3aSha::new(m, PLACEHOLDER as u32), 0)),
            ShaKey::VecU8 => Box::new(NSha::<Vec<u8>>(ProbMinHash3aSha::new(m, <Vec<u8> as Key>::from_id(PLACEHOLDER)), if p.long_keys { LONG_KEY } else { 0 })),
            ShaKey::Str => Box::new(NSha::<String>(ProbMinHash3aSha::new(m, <String as Key>::from_id(PLACEHOLDER)), if p.long_keys { LONG_KEY } else { 0 })),
            ShaKey::VecU16 => Box::new(NSha::<Vec<u16>>(ProbMinHash3aSha::new(m, <Vec<u16> as Key>::from_id(PLACEHOLDER)), 0)),
            ShaKey::VecU32 => Box::new(NSha::<Vec<u32>>(ProbMinHash3aSha::new(m, <Vec<u32> as Key>::from_id(PLACEHOLDER)), 0)),
        };
    }
    match p.elem {
        ElemT::U64 => mk_d::<u64>(v, p.hash, p.m),
        ElemT::U32 => mk_d::<u32>(v, p.hash, p.m),
        ElemT::Usize => mk_d::<usize>(v, p.hash, p.m),
    }
}

/// canonical delivery: sorted ids, one batch, through the variant's plainest entry point
pub fn canonical(p: &WPlan, v: Variant, pairs: &[(u64, f64)]) -> Box<dyn WNode> {
    let mut n = make_wnode_m(p, v);
    let mut sorted = pairs.to_vec();
    sorted.sort_by_key(|x| x.0);
    match v {
        Variant::Pmh2 | Variant::Pmh3 => {
            for (i, w) in &sorted {
                n.item(*i, *w);
            }
        }
        _ => {
            if !sorted.is_empty() {
                n.idxmap(&sorted);
            }
        }
    }
    n
}

pub fn pairs_of(p: &WPlan) -> Vec<(u64, f64)> {
    p.wset.iter().map(|(i, w)| (*i, f64::from_bits(*w))).collect()
}

pub fn gen_weights(rng: &mut Rng, n: usize, tiny: bool) -> Vec<f64> {
    if tiny && rng.chance(0.35) {
        // the very bottom: 1/w is so large that an item's race overflows before all registers are filled
        return (0..n).map(|_| 2.3e-308 * (1.0 + rng.f64())).collect();
    }
    if tiny {
        // [2.3e-308, 1e-300]
        return (0..n).map(|_| 2.3e-308 * (1.0 + rng.f64() * 100.0) * (2.0f64).powi(rng.range(0, 12) as i32)).collect();
    }
    let base_exp = rng.range(0, 400) as i32 - 200;
    let base = (2.0f64).powi(base_exp);
    match rng.below(7) {
        0 => vec![base; n],
        1 => (0..n).map(|k| base * (0.5f64).powi((k % 60) as i32)).collect(),
        2 => {
            let mut v = vec![base; n];
            let k = rng.usize_below(n);
            v[k] = base * (2.0f64).powi(rng.range(5, 40) as i32);
            v
        }
        3 => (0..n).map(|_| rng.range(1, 1000) as f64).collect(),
        4 => (0..n).map(|_| base * (2.0f64).powi(rng.range(0, 200) as i32 - 100) * (1.0 + rng.f64())).collect(),
        5 => (0..n).map(|_| 1e-3 + rng.f64()).collect(),
        _ => (0..n).map(|_| base * (1.0 + rng.f64())).collect(),
    }
}

pub struct WStream;

fn supported(v: Variant) -> &'static [u8] {
    // 0 Item, 1 WSet, 2 IdxMap, 3 HMap, 4 HMapStd
    match v {
        Variant::Pmh2 => &[0, 0, 1, 4],
        Variant::Pmh3 => &[0, 0, 1, 2, 3],
        Variant::Pmh3a | Variant::Sha => &[2, 3],
    }
}

impl WStream {
    fn covers(p: &WPlan) -> bool {
        let mut seen = BTreeSet::new();
        for e in &p.events {
            match e {
                WEv::Item(i) => {
                    seen.insert(*i);
                }
                WEv::WSet(v) | WEv::IdxMap(v) | WEv::HMapStd(v) | WEv::HMap { items: v, .. } => seen.extend(v.iter().copied()),
            }
        }
        seen.len() == p.wset.len() && seen.iter().all(|i| *i < p.wset.len()) && !p.wset.is_empty()
    }
    /// removes item k of the weighted set from the plan (indices above shift down)
    fn without_item(p: &WPlan, k: usize) -> WPlan {
        let mut q = p.clone();
        q.wset.remove(k);
        if !q.split.is_empty() {
            q.split.remove(k);
        }
        let fix = |v: &Vec<usize>| -> Vec<usize> { v.iter().filter(|i| **i != k).map(|i| if *i > k { *i - 1 } else { *i }).collect() };
        let mut evs = vec![];
        for e in &p.events {
            match e {
                WEv::Item(i) => {
                    if *i != k {
                        evs.push(WEv::Item(if *i > k { *i - 1 } else { *i }))
                    }
                }
                WEv::WSet(v) => {
                    let v = fix(v);
                    if !v.is_empty() {
                        evs.push(WEv::WSet(v))
                    }
                }
                WEv::IdxMap(v) => {
                    let v = fix(v);
                    if !v.is_empty() {
                        evs.push(WEv::IdxMap(v))
                    }
                }
                WEv::HMapStd(v) => {
                    let v = fix(v);
                    if !v.is_empty() {
                        evs.push(WEv::HMapStd(v))
                    }
                }
                WEv::HMap { items, hseed } => {
                    let v = fix(items);
                    if !v.is_empty() {
                        evs.push(WEv::HMap { items: v, hseed: *hseed })
                    }
                }
            }
        }
        q.events = evs;
        q
    }
}

/// divergence at a position is a legitimate exact tie iff both items, sketched alone, attain the register value there
fn tie_ok(p: &WPlan, v: Variant, pairs: &BTreeMap<u64, f64>, pos: usize, a: u64, b: u64, reg: f64) -> bool {
    let alone = |id: u64| -> Option<f64> {
        let w = *pairs.get(&id)?;
        let n = canonical(p, v, &[(id, w)]);
        Some(n.regs().0[pos])
    };
    match (alone(a), alone(b)) {
        (Some(x), Some(y)) => x.to_bits() == reg.to_bits() && y.to_bits() == reg.to_bits(),
        _ => false,
    }
}

fn compare_sigs(
    ctx: &mut Ctx,
    oracle: &'static str,
    key: &str,
    p: &WPlan,
    v: Variant,
    pairs: &BTreeMap<u64, f64>,
    got: &dyn WNode,
    want: &dyn WNode,
    what: &str,
) -> Result<(), Violation> {
    let (sg, sw) = (got.sig(), want.sig());
    if sg == sw {
        return ctx.check_key("C02", oracle, key, true, String::new);
    }
    let (rg, rw) = (got.regs().0, want.regs().0);
    let mut ties = 0;
    for pos in 0..sg.len() {
        if sg[pos] != sw[pos] {
            // one exact f64 tie in a run has probability ~2^-52 per pair and position; a second one in the same
            // comparison means two items share their race values systematically, which is not a legitimate tie
            let tie = ties == 0 && rg[pos].to_bits() == rw[pos].to_bits() && tie_ok(p, v, pairs, pos, sg[pos], sw[pos], rg[pos]);
            if tie {
                ties += 1;
                ctx.count("exact-tie-accepted");
                continue;
            }
            return ctx.check_key("C02", oracle, key, false, || {
                format!(
                    "{}: position {} holds item {} (register {:e}) in one execution and item {} (register {:e}) in the other ({:?}, m {})",
                    what, pos, sg[pos], rg[pos], sw[pos], rw[pos], v, p.m
                )
            });
        }
    }
    ctx.check_key("C02", oracle, key, true, String::new)
}

impl Scenario for WStream {
    type Plan = WPlan;
    fn name(&self) -> &'static str {
        "wstream"
    }

    fn generate(&self, rng: &mut Rng, tier: Tier, _t: &str) -> WPlan {
        let variant = *rng.pick(&[Variant::Pmh2, Variant::Pmh3, Variant::Pmh3a, Variant::Sha]);
        let elem = *rng.pick(&[ElemT::U64, ElemT::U32, ElemT::Usize]);
        let shakey = *rng.pick(&[ShaKey::U64, ShaKey::U32, ShaKey::VecU8, ShaKey::Str, ShaKey::VecU16, ShaKey::VecU32]);
        let hash = *rng.pick(&[HashT::Fnv, HashT::Fnv, HashT::NoHash, HashT::SimA, HashT::Ident]);
        let big = tier == Tier::Thorough && rng.chance(0.01);
        let m = if big {
            rng.log_range(129, 4096) as usize
        } else {
            match rng.below(8) {
                0 => 2,
                1 => 3,
                _ => rng.log_range(2, 128) as usize,
            }
        };
        let m = if variant == Variant::Pmh2 && rng.chance(0.05) { 1 } else { m };
        let tiny = rng.chance(0.02);
        let n = match rng.below(8) {
            0 => 1,
            1 => 2,
            2 | 3 => rng.log_range(1, 20) as usize,
            _ => rng.log_range(1, if big { 10_000 } else { 300 }) as usize,
        };
        // sets larger than any plausible internal block (4096 and beyond) also in the quick tier, rarely
        let n = if !big && rng.chance(0.001) { rng.range(4097, 9000) as usize } else { n };
        let ids = crate::sc_stream::gen_items(rng, n, ElemT::U32);
        let ids: Vec<u64> = ids.into_iter().filter(|i| *i != PLACEHOLDER && *i < 0xffff_0000).collect();
        let mut ids = if ids.is_empty() { vec![1] } else { ids };
        // "all finite weighted sets" includes a set that contains the very object given to `new` as filler
        if rng.chance(0.03) {
            let pos = rng.usize_below(ids.len() + 1);
            ids.insert(pos, PLACEHOLDER);
        }
        let n = ids.len();
        let ws = gen_weights(rng, n, tiny);
        let wset: Vec<(u64, u64)> = ids.iter().zip(ws.iter()).map(|(i, w)| (*i, w.to_bits())).collect();
        // delivery: a permutation with duplicates, cut into entry-point events
        let mut seq: Vec<usize> = (0..n).collect();
        match rng.below(4) {
            0 => {}
            1 => seq.reverse(),
            _ => rng.shuffle(&mut seq),
        }
        let dup_rate = *rng.pick(&[0.0, 0.0, 0.2, 1.0]);
        for _ in 0..((dup_rate * n as f64).ceil() as usize) {
            let it = seq[rng.usize_below(seq.len())];
            let pos = rng.usize_below(seq.len() + 1);
            seq.insert(pos, it);
        }
        if rng.chance(0.3) {
            let k = rng.urange(1, seq.len().min(6));
            let head: Vec<usize> = seq[..k].to_vec();
            seq.extend(head); // earliest pairs again at the very end
        }
        let sup = supported(variant);
        let mut events = vec![];
        let mode = rng.below(3);
        let mut i = 0;
        while i < seq.len() {
            let take = match mode {
                0 => seq.len(),
                1 => rng.urange(1, 5),
                _ => rng.log_range(1, seq.len() as u64) as usize,
            }
            .min(seq.len() - i);
            let chunk = seq[i..i + take].to_vec();
            i += take;
            match *rng.pick(sup) {
                0 => events.extend(chunk.into_iter().map(WEv::Item)),
                1 => events.push(WEv::WSet(chunk)),
                2 => events.push(WEv::IdxMap(chunk)),
                3 => events.push(WEv::HMap { items: chunk, hseed: rng.u64() }),
                _ => events.push(WEv::HMapStd(chunk)),
            }
        }
        let scale_exp = if tiny {
            if rng.chance(0.5) { rng.range(900, 1100) as i32 } else { 0 }
        } else if rng.chance(0.5) {
            rng.range(0, 600) as i32 - 300
        } else {
            0
        };
        let split = if rng.chance(0.4) && n >= 2 { (0..n).map(|_| *rng.pick(&[0u8, 1, 2])).collect() } else { vec![] };
        let ghosts = if matches!(variant, Variant::Pmh3a | Variant::Sha) && rng.chance(0.25) {
            (0..rng.urange(1, 4)).map(|k| 0xffff_0000 + k as u64 * 7 + rng.below(5)).collect()
        } else {
            vec![]
        };
        let long_keys = variant == Variant::Sha && matches!(shakey, ShaKey::VecU8 | ShaKey::Str) && rng.chance(0.3);
        WPlan { variant, elem, shakey, hash, m, wset, events, scale_exp, split, tiny, ghosts, long_keys }
    }

    fn execute(&self, plan: &WPlan, ctx: &mut Ctx) -> Result<(), Violation> {
        let v = plan.variant;
        let key = if plan.tiny { "tiny-weights" } else { "" };
        let pairs = pairs_of(plan);
        let pmap: BTreeMap<u64, f64> = pairs.iter().copied().collect();
        let ids: BTreeSet<u64> = pairs.iter().map(|x| x.0).collect();
        // ghost entries (weight 0) are used only if this variant accepts a weight of zero at all
        let ghosts_ok = !plan.ghosts.is_empty()
            && matches!(v, Variant::Pmh3a | Variant::Sha)
            && caught(|| {
                let mut probe = make_wnode(plan);
                probe.idxmap(&[(plan.ghosts[0], 0.0)]);
            })
            .is_ok();
        if !plan.ghosts.is_empty() && !ghosts_ok {
            ctx.count("skipped:zero-weight-entries-rejected-by-the-variant");
        }
        let get = |v: &Vec<usize>| -> Vec<(u64, f64)> {
            let mut out: Vec<(u64, f64)> = v.iter().map(|i| pairs[*i]).collect();
            if ghosts_ok {
                // interleave: one ghost first, one in the middle, the rest at the end
                for (k, g) in plan.ghosts.iter().enumerate() {
                    let pos = match k {
                        0 => 0,
                        1 => out.len() / 2,
                        _ => out.len(),
                    };
                    out.insert(pos, (*g, 0.0));
                }
            }
            out
        };
        if ghosts_ok {
            ctx.count("fault:zero-weight-ghost-entries");
        }
        if ids.contains(&PLACEHOLDER) {
            ctx.count("probe:set-contains-the-filler-object");
        }
        let mut node = make_wnode(plan);
        let mut delivered: BTreeSet<usize> = BTreeSet::new();
        let mut tracker_check = |ctx: &mut Ctx, node: &dyn WNode, what: &str| -> Result<(), Violation> {
            if !ctx.wants("C15") {
                return Ok(());
            }
            let (r, mx) = node.regs();
            let truth = r.iter().cloned().fold(f64::MIN, f64::max);
            ctx.check("C15", "in-vivo-tracker-max-equals-max-of-registers", mx.to_bits() == truth.to_bits(), || {
                format!("after {}: tracker reports maximum {:e}, the largest register is {:e} ({:?}, m {})", what, mx, truth, v, plan.m)
            })
        };
        for e in &plan.events {
            match e {
                WEv::Item(i) => {
                    ctx.ev("deliver", pairs[*i].0);
                    let dup = !delivered.insert(*i);
                    let before = if dup && ctx.wants("C02") { Some(node.sig()) } else { None };
                    node.item(pairs[*i].0, pairs[*i].1);
                    if let Some(b) = before {
                        ctx.count("fault:duplicate");
                        let same = b == node.sig();
                        ctx.check_key("C02", "duplicate-pair-changes-nothing", key, same, || {
                            format!("re-inserting pair ({}, {:e}) changed the signature", pairs[*i].0, pairs[*i].1)
                        })?;
                    }
                    tracker_check(ctx, node.as_ref(), "hash_item")?;
                }
                WEv::WSet(vv) => {
                    ctx.ev("deliver-wset", vv.len() as u64);
                    for i in vv {
                        ctx.sched.add(*i as u64);
                        if !delivered.insert(*i) {
                            ctx.count("fault:duplicate");
                        }
                    }
                    // the iterator may yield an object more than once (a repeated pair must change nothing)
                    node.wset(&get(vv));
                    tracker_check(ctx, node.as_ref(), "hash_wset")?;
                }
                WEv::IdxMap(vv) => {
                    ctx.ev("deliver-indexmap", vv.len() as u64);
                    for i in vv {
                        ctx.sched.add(*i as u64);
                        if !delivered.insert(*i) {
                            ctx.count("fault:duplicate");
                        }
                    }
                    node.idxmap(&get(vv));
                    tracker_check(ctx, node.as_ref(), "hash_weigthed_idxmap")?;
                }
                WEv::HMap { items, hseed } => {
                    ctx.ev("deliver-hashmap", items.len() as u64);
                    ctx.sched.add(*hseed);
                    for i in items {
                        if !delivered.insert(*i) {
                            ctx.count("fault:duplicate");
                        }
                    }
                    let order = node.hmap(&get(items), *hseed);
                    if order.windows(2).any(|w| w[0] > w[1]) {
                        ctx.count("fault:map-iteration-out-of-order");
                    }
                    tracker_check(ctx, node.as_ref(), "hash_weigthed_hashmap")?;
                }
                WEv::HMapStd(items) => {
                    ctx.ev("deliver-std-hashmap", items.len() as u64);
                    for i in items {
                        if !delivered.insert(*i) {
                            ctx.count("fault:duplicate");
                        }
                    }
                    let order = node.hmap_std(&get(items));
                    if order.windows(2).any(|w| w[0] > w[1]) {
                        ctx.count("fault:map-iteration-out-of-order");
                    }
                    tracker_check(ctx, node.as_ref(), "hash_weigthed_hashmap")?;
                }
            }
        }
        assert_eq!(delivered.len(), pairs.len(), "harness: plan does not deliver its whole weighted set");
        ctx.nontrivial = pairs.len() >= 2 && plan.events.len() >= 1;
        if !ctx.wants("C02") {
            return Ok(());
        }
        let sig = node.sig();
        for x in &sig {
            ctx.out.add(*x);
        }
        // 1. any schedule == canonical schedule
        let canon = canonical(plan, v, &pairs);
        compare_sigs(ctx, "replica-equals-canonical", key, plan, v, &pmap, node.as_ref(), canon.as_ref(), "perturbed vs canonical delivery")?;
        // 4. every position holds an item of the set
        let bad = sig.iter().position(|i| !ids.contains(i));
        ctx.check_key("C02", "position-holds-item-of-set", key, bad.is_none(), || {
            format!(
                "position {:?} holds {} which is {} ({:?}, m {}, {} items, largest weight {:e})",
                bad,
                bad.map(|p| sig[p]).unwrap_or(0),
                if bad.map(|p| sig[p]) == Some(PLACEHOLDER) { "the placeholder" } else { "a foreign item" },
                v,
                plan.m,
                pairs.len(),
                pairs.iter().map(|x| x.1).fold(0.0, f64::max)
            )
        })?;
        // pruning probe: the maximum register is finite, i.e. all positions were filled and pruning was active
        if canon.regs().1 < f64::MAX {
            ctx.count("probe:all-registers-filled-pruning-active");
        }
        // 2. ProbMinHash3 == ProbMinHash3a
        if matches!(v, Variant::Pmh3 | Variant::Pmh3a) {
            let other = if v == Variant::Pmh3 { Variant::Pmh3a } else { Variant::Pmh3 };
            let oc = canonical(plan, other, &pairs);
            compare_sigs(ctx, "probminhash3-equals-3a", key, plan, v, &pmap, canon.as_ref(), oc.as_ref(), "ProbMinHash3 vs ProbMinHash3a")?;
            ctx.count("probe:3-vs-3a-compared");
        }
        // 3. scaling all weights by 2^k
        if plan.scale_exp != 0 {
            // two steps so that 2^k itself never overflows
            let (k1, k2) = (plan.scale_exp / 2, plan.scale_exp - plan.scale_exp / 2);
            let (f1, f2) = ((2.0f64).powi(k1), (2.0f64).powi(k2));
            let scaled: Vec<(u64, f64)> = pairs.iter().map(|(i, w)| (*i, w * f1 * f2)).collect();
            assert!(scaled.iter().all(|x| x.1.is_finite() && x.1 > 0.0), "harness: scaling left the f64 range");
            let sc = canonical(plan, v, &scaled);
            let same = sc.sig() == canon.sig();
            ctx.count("fault:weights-rescaled");
            ctx.check_key("C02", "scaling-invariant", key, same, || {
                let pos = sc.sig().iter().zip(canon.sig().iter()).position(|(a, b)| a != b);
                format!("weights x 2^{}: signature differs at position {:?} ({:?}, m {})", plan.scale_exp, pos, v, plan.m)
            })?;
        }
        // 5. union: every position of sig(A u B) equals that position of sig(A) or sig(B)
        if plan.split.len() == pairs.len() {
            let a: Vec<(u64, f64)> = pairs.iter().zip(plan.split.iter()).filter(|(_, s)| **s != 1).map(|(p, _)| *p).collect();
            let b: Vec<(u64, f64)> = pairs.iter().zip(plan.split.iter()).filter(|(_, s)| **s != 0).map(|(p, _)| *p).collect();
            if !a.is_empty() && !b.is_empty() {
                let (sa, sb) = (canonical(plan, v, &a).sig(), canonical(plan, v, &b).sig());
                let su = canon.sig();
                let bad = (0..su.len()).find(|p| su[*p] != sa[*p] && su[*p] != sb[*p]);
                ctx.count("probe:union-composition-checked");
                ctx.check_key("C02", "union-position-from-one-side", key, bad.is_none(), || {
                    let p = bad.unwrap();
                    format!("position {}: union holds {}, A holds {}, B holds {} ({:?}, m {})", p, su[p], sa[p], sb[p], v, plan.m)
                })?;
            }
        }
        Ok(())
    }

    fn shrink(&self, plan: &WPlan) -> Vec<WPlan> {
        let mut out = vec![];
        // drop halves / single items of the weighted set
        let n = plan.wset.len();
        if n > 1 {
            let mut chunk = n.div_ceil(2);
            loop {
                let mut start = 0;
                while start < n {
                    let end = (start + chunk).min(n);
                    let mut q = plan.clone();
                    for k in (start..end).rev() {
                        if q.wset.len() > 1 {
                            q = WStream::without_item(&q, k);
                        }
                    }
                    if WStream::covers(&q) && q.wset.len() < n {
                        out.push(q);
                    }
                    start = end;
                }
                if chunk == 1 || out.len() > 80 {
                    break;
                }
                chunk = chunk.div_ceil(2);
            }
        }
        for evs in shrink_vec(&plan.events) {
            let mut q = plan.clone();
            q.events = evs;
            if WStream::covers(&q) {
                out.push(q);
            }
        }
        for m in [2usize, 3, plan.m / 2, plan.m.saturating_sub(1)] {
            if m >= 2 && m < plan.m {
                let mut q = plan.clone();
                q.m = m;
                out.push(q);
            }
        }
        if plan.scale_exp != 0 {
            let mut q = plan.clone();
            q.scale_exp = 0;
            out.push(q);
        }
        if !plan.split.is_empty() {
            let mut q = plan.clone();
            q.split = vec![];
            out.push(q);
        }
        if !plan.ghosts.is_empty() {
            let mut q = plan.clone();
            q.ghosts = vec![];
            out.push(q);
            if plan.ghosts.len() > 1 {
                let mut q = plan.clone();
                q.ghosts.truncate(1);
                out.push(q);
            }
        }
        // simpler weights
        if !plan.tiny && plan.wset.iter().any(|x| f64::from_bits(x.1) != 1.0) {
            let mut q = plan.clone();
            for x in q.wset.iter_mut() {
                x.1 = 1.0f64.to_bits();
            }
            out.push(q);
        }
        if plan.hash != HashT::Fnv {
            let mut q = plan.clone();
            q.hash = HashT::Fnv;
            out.push(q);
        }
        out
    }

    fn doc(&self) -> Doc {
        Doc {
            rule: "seeded weighted sets (1..300 items, thorough up to 10^4; weight shapes: equal, geometric, one dominant, integers, exponents over 2^+-300, bottom-of-range) x 4 variants x key types x hashers x m 2..128 (thorough up to 4096); delivery: permutation with duplicates and late re-delivery, cut into hash_item / hash_wset / IndexMap / HashMap (seeded BuildHasher decides iteration order) events; plus 3-vs-3a, 2^k rescaling and A/B union composition; non-trivial = >= 2 items; distinct = distinct event fingerprints",
            real: &["ProbMinHash2", "ProbMinHash3", "ProbMinHash3a", "ProbMinHash3aSha", "MaxValueTracker (read through the guarded register hook)", "ExpRestricted01", "FYshuffle", "sha2", "indexmap / std HashMap"],
            stub: &["BuildHasher of the input HashMaps (seeded, so that iteration order is the PRNG's choice); ProbMinHash2's std HashMap uses RandomState whose order is observed, not controlled"],
            assumptions: &[
                "a signature divergence counts as a legitimate exact tie only when the registers are bit-equal and both items, sketched alone, attain that register value",
                "outside the bottom-of-range sub-scenario weights and scalings keep every race value normal",
                "std HashMap<_,_,RandomState> deliveries (ProbMinHash2) are not replayable in their iteration order; the oracle is an order-free equality",
            ],
        }
    }
}
