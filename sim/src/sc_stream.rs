//! C04 — unweighted sketches have set semantics.
//! A source owns a set of items; the network delivers them reordered, duplicated, split into
//! chunks or item-wise. Oracle: the real sketcher fed the perturbed delivery ends in exactly
//! the state of a fresh real sketcher fed the canonical delivery (sorted, one slice call).

use crate::core::*;
use crate::nodes::*;
use crate::prng::Rng;
use serde::{Deserialize, Serialize};
use std::collections::{BTreeMap, BTreeSet};

#[derive(Serialize, Deserialize, Clone, Debug, PartialEq)]
pub enum SEv {
    Item(u64),
    Chunk(Vec<u64>),
    Finish,
}

#[derive(Serialize, Deserialize, Clone, Debug)]
pub struct StreamPlan {
    pub spec: USpec,
    pub items: Vec<u64>,
    pub events: Vec<SEv>,
    /// the sketcher is built in this thread and fed in another one
    #[serde(default)]
    pub other_thread: bool,
}

pub struct Stream;

pub fn gen_items(rng: &mut Rng, n: usize, elem: ElemT) -> Vec<u64> {
    let mut set = BTreeSet::new();
    let shape = rng.below(5);
    let base = match shape {
        0 => 0u64,
        1 => rng.below(1 << 20),
        _ => rng.u64() >> 1,
    };
    let mut k = 0u64;
    while set.len() < n {
        let v = match shape {
            0 | 1 => base + k,                        // dense range
            2 => base.wrapping_add(k.wrapping_mul(rng.range(1, 1000))), // strided
            3 => rng.u64(),                           // scattered
            _ => {
                // mixed magnitudes: some below 2^32, some far above (matters for identity-like hashers)
                if rng.chance(0.5) { rng.below(1 << 20) } else { rng.u64() | (1 << 40) }
            }
        };
        k += 1;
        let v = match elem {
            ElemT::U32 => v & 0xffff_ffff,
            _ => v,
        };
        set.insert(v);
    }
    // extreme identities (with a hasher that does not scatter these are extreme hashes as well)
    if n >= 2 && rng.chance(0.15) {
        let ext = [0u64, 1, u64::MAX, 1 << 63, 0xffff_ffff, 1 << 32, 1 << 56];
        let k = rng.urange(1, 3);
        for _ in 0..k {
            let e = *rng.pick(&ext);
            let e = if elem == ElemT::U32 { e & 0xffff_ffff } else { e };
            if set.len() > 1 {
                let first = *set.iter().next().unwrap();
                set.remove(&first);
            }
            set.insert(e);
        }
        while set.len() < n {
            set.insert(rng.u64() >> if elem == ElemT::U32 { 32 } else { 0 });
        }
    }
    set.into_iter().collect()
}

/// perturbed delivery of a set: order, duplicates, chunking. Returns events (without Finish) and fault counts
pub fn gen_delivery(rng: &mut Rng, items: &[u64], allow_chunks: bool) -> Vec<SEv> {
    let mut seq: Vec<u64> = items.to_vec();
    match rng.below(5) {
        0 => {}                    // ascending
        1 => seq.reverse(),        // descending
        2 => {
            // windowed reorder
            let w = rng.urange(2, 8);
            for c in seq.chunks_mut(w) {
                rng.shuffle(c);
            }
        }
        _ => rng.shuffle(&mut seq),
    }
    // duplicates
    let dup_rate = *rng.pick(&[0.0, 0.0, 0.1, 0.5, 1.0, 3.0]);
    let ndup = (dup_rate * items.len() as f64).ceil() as usize;
    for _ in 0..ndup.min(4 * items.len() + 4) {
        let it = seq[rng.usize_below(seq.len())];
        let pos = rng.usize_below(seq.len() + 1);
        seq.insert(pos, it);
    }
    // adversarial duplicates: the earliest deliveries again at the very end (bounds have tightened)
    if rng.chance(0.3) {
        let k = rng.urange(1, seq.len().min(8));
        let head: Vec<u64> = seq[..k].to_vec();
        seq.extend(head);
    }
    // the same item many times in a row
    if rng.chance(0.1) {
        let it = seq[rng.usize_below(seq.len())];
        let pos = rng.usize_below(seq.len() + 1);
        for _ in 0..rng.urange(2, 6) {
            seq.insert(pos, it);
        }
    }
    // chunking
    let mut events = vec![];
    if !allow_chunks {
        return seq.into_iter().map(SEv::Item).collect();
    }
    let mode = rng.below(4);
    let mut i = 0;
    while i < seq.len() {
        let take = match mode {
            0 => 1,
            1 => seq.len(),
            2 => rng.urange(1, 4),
            _ => rng.log_range(1, seq.len() as u64) as usize,
        }
        .min(seq.len() - i);
        if take == 1 && rng.chance(0.7) {
            events.push(SEv::Item(seq[i]));
        } else {
            events.push(SEv::Chunk(seq[i..i + take].to_vec()));
        }
        i += take;
    }
    events
}

pub fn f32_tie_ok(spec: &USpec, model_hash: &BTreeMap<u64, u64>, h1: u64, h2: u64) -> bool {
    // both hashes must belong to streamed items and the two items, each sketched alone by the real
    // code, must land in the same bin with bit-identical value
    let (Some(&i1), Some(&i2)) = (model_hash.get(&h1), model_hash.get(&h2)) else {
        return false;
    };
    let probe = |id: u64| -> Option<(usize, u64)> {
        let mut n = make_unode(spec);
        n.deliver(id);
        let st = n.dens_state()?;
        let k = st.init.iter().position(|b| *b)?;
        Some((k, st.fvals[k]))
    };
    match (probe(i1), probe(i2)) {
        (Some(a), Some(b)) => a == b,
        _ => false,
    }
}

/// exact comparison of all views; for f32 densified sketchers a true tie at a bin minimum is accepted
pub fn compare_views(
    ctx: &mut Ctx,
    prop: &str,
    oracle: &'static str,
    spec: &USpec,
    got: &[View],
    want: &[View],
    model_hash: &BTreeMap<u64, u64>,
    what: &str,
) -> Result<(), Violation> {
    let mut tie_positions: BTreeSet<usize> = BTreeSet::new();
    if spec.kind.is_f32_dens() && got.len() == 3 && got[0].1 == want[0].1 {
        for p in 0..got[1].1.len() {
            let (h1, h2) = (got[1].1[p], want[1].1[p]);
            if h1 != h2 && f32_tie_ok(spec, model_hash, h1, h2) {
                tie_positions.insert(p);
            }
        }
        if !tie_positions.is_empty() {
            ctx.count("f32-tie-accepted");
        }
    }
    for (g, w) in got.iter().zip(want.iter()) {
        let mut bad = None;
        if g.1.len() != w.1.len() {
            bad = Some(usize::MAX);
        } else {
            for p in 0..g.1.len() {
                if g.1[p] != w.1[p] && !(g.0 != "hsketch" && tie_positions.contains(&p)) {
                    bad = Some(p);
                    break;
                }
            }
        }
        ctx.check(prop, oracle, bad.is_none(), || {
            format!(
                "{}: view {} differs at position {:?}: got {:#x?} want {:#x?} (kind {:?}, m {})",
                what,
                g.0,
                bad,
                bad.and_then(|p| g.1.get(p)),
                bad.and_then(|p| w.1.get(p)),
                spec.kind,
                spec.m
            )
        })?;
    }
    Ok(())
}

pub fn digest_views(ctx: &mut Ctx, views: &[View]) {
    for v in views {
        for x in &v.1 {
            ctx.out.add(*x);
        }
    }
}

impl Stream {
    fn normalise(plan: &mut StreamPlan) {
        let set: BTreeSet<u64> = plan.items.iter().copied().collect();
        let mut evs = vec![];
        for e in plan.events.drain(..) {
            match e {
                SEv::Item(i) => {
                    if set.contains(&i) {
                        evs.push(SEv::Item(i))
                    }
                }
                SEv::Chunk(c) => {
                    let c: Vec<u64> = c.into_iter().filter(|i| set.contains(i)).collect();
                    if !c.is_empty() {
                        evs.push(SEv::Chunk(c))
                    }
                }
                SEv::Finish => evs.push(SEv::Finish),
            }
        }
        plan.events = evs;
    }
    fn covers(plan: &StreamPlan) -> bool {
        let mut seen = BTreeSet::new();
        for e in &plan.events {
            match e {
                SEv::Item(i) => {
                    seen.insert(*i);
                }
                SEv::Chunk(c) => seen.extend(c.iter().copied()),
                SEv::Finish => {}
            }
        }
        let set: BTreeSet<u64> = plan.items.iter().copied().collect();
        seen == set && !set.is_empty()
    }
}

impl Scenario for Stream {
    type Plan = StreamPlan;
    fn name(&self) -> &'static str {
        "stream"
    }
    fn generate(&self, rng: &mut Rng, tier: Tier, _target: &str) -> StreamPlan {
        let big = tier == Tier::Thorough && rng.chance(0.03);
        let (max_m, max_n) = if big { (70_000, 100_000) } else { (512, 2000) };
        let spec = gen_uspec(rng, &UKind::ALL, max_m);
        let n = match rng.below(8) {
            0 => 1,
            1 => 2,
            2..=4 => rng.log_range(1, 64) as usize,
            _ => rng.log_range(1, max_n as u64) as usize,
        };
        // keep the product bounded so that a run stays in the millisecond range
        let mut n = if big { n } else { n.min(400_000 / spec.m.max(1)).max(1) };
        let mut spec = spec;
        if spec.kind == UKind::SmhF32 && spec.m > 4096 {
            // f32 SuperMinHash: for j >= 2^12 the sum j + r leaves the f32 grid often enough that the
            // histogram of integer parts (and with it the early exit) degrades and every item costs m steps.
            // That is a performance matter, not this property: keep such runs short instead of tripping the watchdog.
            n = n.min(50_000_000 / spec.m).max(1);
        }
        if big && spec.kind.is_set() {
            // SetSketch costs up to m steps per item while its lower bound is still 0
            n = n.min(100_000_000 / spec.m.max(1)).max(1);
        }
        if big && matches!(spec.kind, UKind::OptF64 | UKind::OptF32) {
            // optimal densification costs m^2 / populated steps
            n = n.max(spec.m * spec.m / 100_000_000);
        }
        if spec.kind.is_dens() && rng.chance(0.04) {
            // sketch thousands of times larger than the stream: nearly every bin is filled by densification
            n = rng.urange(1, 6);
            let cap = ((2.0e7 * n as f64).sqrt() as u64).min(12_000);
            spec.m = rng.log_range(1500, cap.max(1501)) as usize;
        }
        if std::env::var("VERIF_STREAM_REGIME").as_deref() == Ok("smhf32-large") {
            // exploration knob (not used by the registered checks): f32 SuperMinHash where j + r leaves the f32 grid
            spec.kind = UKind::SmhF32;
            spec.m = rng.range(16_500, 30_000) as usize;
            n = rng.range(300, 3000) as usize;
        }
        if spec.kind.is_set() && rng.chance(0.004) {
            // the Default constructor: must behave like new(default parameters)
            let (sp, dm) = default_setp();
            spec.setp = Some(sp);
            spec.m = dm;
            spec.use_default = true;
            n = n.min(60);
        }
        let mut items = gen_items(rng, n, spec.elem);
        if spec.kind.is_f32_dens() && spec.m <= 16 && rng.chance(0.2) {
            // items known to tie exactly (same bin, same f32 value): the legitimate order dependence of the
            // densified sketchers, and the place where tie handling of different code paths must agree
            let ties = f32_tie_pairs(&spec);
            if !ties.is_empty() {
                let mut set: BTreeSet<u64> = items.iter().copied().collect();
                for _ in 0..rng.urange(1, 2) {
                    let (a, b) = *rng.pick(&ties);
                    set.insert(a);
                    set.insert(b);
                }
                items = set.into_iter().collect();
            }
        }
        let mut events;
        if spec.kind.is_dens() {
            if rng.chance(0.5) {
                // item-wise + finishing step
                events = gen_delivery(rng, &items, false);
                events.push(SEv::Finish);
            } else {
                // one slice call holding the whole perturbed stream
                let evs = gen_delivery(rng, &items, false);
                let all: Vec<u64> = evs
                    .into_iter()
                    .map(|e| match e {
                        SEv::Item(i) => i,
                        _ => unreachable!(),
                    })
                    .collect();
                events = vec![SEv::Chunk(all)];
            }
        } else {
            events = gen_delivery(rng, &items, true);
        }
        StreamPlan { spec, items, events, other_thread: rng.chance(0.05) }
    }

    fn execute(&self, plan: &StreamPlan, ctx: &mut Ctx) -> Result<(), Violation> {
        let spec = &plan.spec;
        decoy_unode(spec);
        if spec.use_default {
            ctx.count("fault:node-built-with-default-constructor");
        }
        let mut node = make_unode(spec);
        if plan.other_thread {
            // built here, fed in a fresh thread, read back here: per-thread state of the library must not matter
            ctx.count("fault:built-here-used-in-another-thread");
            let _ = crate::alloc_track::disarm();
            let evs = &plan.events;
            let is_dens = spec.kind.is_dens();
            let r = std::thread::scope(|sc| {
                sc.spawn(move || {
                    caught(|| {
                        let mut fin = false;
                        for e in evs {
                            match e {
                                SEv::Item(i) => node.deliver(*i),
                                SEv::Chunk(c) => {
                                    node.chunk(c);
                                    if is_dens {
                                        fin = true;
                                    }
                                }
                                SEv::Finish => {
                                    node.finish();
                                    fin = true;
                                }
                            }
                        }
                        if is_dens && !fin {
                            node.finish();
                        }
                        node
                    })
                })
                .join()
            });
            let node = match r {
                Ok(Ok(n)) => n,
                Ok(Err(msg)) => return Err(Violation { property: ctx.target.clone(), oracle: "unexpected-panic".into(), key: String::new(), detail: msg }),
                Err(_) => return Err(Violation { property: ctx.target.clone(), oracle: "unexpected-panic".into(), key: String::new(), detail: "feeding thread died".into() }),
            };
            for e in &plan.events {
                ctx.ev("deliver-in-other-thread", match e { SEv::Item(i) => *i, SEv::Chunk(c) => c.len() as u64, SEv::Finish => 0 });
            }
            let items: BTreeSet<u64> = plan.items.iter().copied().collect();
            ctx.nontrivial = items.len() >= 2;
            let mut cspec = spec.clone();
            cspec.use_default = false;
            let mut canon = make_unode(&cspec);
            let sorted: Vec<u64> = items.iter().copied().collect();
            canon.chunk(&sorted);
            let (got, want) = (node.views(), canon.views());
            digest_views(ctx, &got);
            let mut model_hash = BTreeMap::new();
            for i in &items {
                model_hash.insert(node.hash_of(*i), *i);
            }
            return compare_views(ctx, "C04", "replica-equals-canonical", spec, &got, &want, &model_hash, "fed in another thread vs canonical delivery");
        }
        let mut delivered: BTreeSet<u64> = BTreeSet::new();
        let mut total = 0usize;
        let mut finished = false;
        let mut prev: Option<u64> = None;
        for e in &plan.events {
            match e {
                SEv::Item(i) => {
                    ctx.ev("deliver", *i);
                    if !delivered.insert(*i) {
                        ctx.count("fault:duplicate");
                    }
                    if let Some(p) = prev {
                        if *i < p {
                            ctx.count("fault:out-of-order");
                        }
                    }
                    prev = Some(*i);
                    total += 1;
                    node.deliver(*i);
                }
                SEv::Chunk(c) => {
                    ctx.ev("deliver-chunk", c.len() as u64);
                    for i in c {
                        ctx.sched.add(*i);
                        if !delivered.insert(*i) {
                            ctx.count("fault:duplicate");
                        }
                        if let Some(p) = prev {
                            if *i < p {
                                ctx.count("fault:out-of-order");
                            }
                        }
                        prev = Some(*i);
                        total += 1;
                    }
                    ctx.count("fault:chunk-boundary");
                    let ok = node.chunk(c);
                    ctx.check("C04", "slice-call-accepted", ok, || "sketch_slice returned Err on a non-empty slice".into())?;
                    if spec.kind.is_dens() {
                        finished = true;
                    }
                }
                SEv::Finish => {
                    ctx.ev("finish", 0);
                    if let Some(st) = node.dens_state() {
                        if st.nb_empty > 0 {
                            ctx.count("probe:densification-ran");
                        }
                    }
                    node.finish();
                    finished = true;
                }
            }
        }
        if spec.kind.is_dens() && !finished {
            node.finish();
        }
        let items: BTreeSet<u64> = plan.items.iter().copied().collect();
        assert_eq!(delivered, items, "harness: plan does not deliver exactly its item set");
        ctx.nontrivial = items.len() >= 2 && total >= 2 && ctx.counters.keys().any(|k| k.starts_with("fault:"));

        // canonical delivery on a fresh instance (always through the explicit constructor)
        let mut cspec = spec.clone();
        cspec.use_default = false;
        let mut canon = make_unode(&cspec);
        let sorted: Vec<u64> = items.iter().copied().collect();
        let ok = canon.chunk(&sorted);
        ctx.check("C04", "slice-call-accepted", ok, || "canonical sketch_slice returned Err".into())?;
        let got = node.views();
        let want = canon.views();
        digest_views(ctx, &got);
        let mut model_hash = BTreeMap::new();
        for i in &items {
            model_hash.insert(node.hash_of(*i), *i);
        }
        compare_views(ctx, "C04", "replica-equals-canonical", spec, &got, &want, &model_hash, "perturbed vs canonical delivery")?;

        // stored hashes are hashes of streamed items
        if let Some(hv) = node.hash_view() {
            let v = got.iter().find(|v| v.0 == hv).unwrap();
            let bad = v.1.iter().position(|h| !model_hash.contains_key(h));
            ctx.check("C04", "stored-hash-is-streamed-item", bad.is_none(), || {
                format!("position {:?} of view {} holds {:#x} which is no streamed item's hash", bad, hv, bad.map(|p| v.1[p]).unwrap_or(0))
            })?;
        }
        // reach probes
        if let Some((low, ovf, _)) = node.set_extras() {
            if low > 0 {
                ctx.count("probe:setsketch-lower-bound-active");
            }
            if ovf > 0 {
                ctx.count("probe:register-overflow");
            }
        }
        if matches!(spec.kind, UKind::SmhF64) {
            let mx = got[0].1.iter().map(|b| f64::from_bits(*b)).fold(0.0, f64::max);
            if mx < (spec.m as f64 - 1.0) {
                ctx.count("probe:superminhash-early-exit-active");
            }
        }
        if items.len() < spec.m {
            ctx.count("probe:m-larger-than-stream");
        }
        Ok(())
    }

    fn shrink(&self, plan: &StreamPlan) -> Vec<StreamPlan> {
        let mut out = vec![];
        // fewer items
        for items in shrink_vec(&plan.items) {
            if items.is_empty() {
                continue;
            }
            let mut p = plan.clone();
            p.items = items;
            Stream::normalise(&mut p);
            if Stream::covers(&p) {
                out.push(p);
            }
        }
        // fewer events (duplicates)
        for evs in shrink_vec(&plan.events) {
            let mut p = plan.clone();
            p.events = evs;
            if Stream::covers(&p) && (!p.spec.kind.is_dens() || true) {
                out.push(p);
            }
        }
        // smaller sketch
        for m in [1usize, 2, plan.spec.m / 2, plan.spec.m.saturating_sub(1)] {
            if m >= 1 && m < plan.spec.m {
                let mut p = plan.clone();
                p.spec.m = m;
                out.push(p);
            }
        }
        // flatten chunks
        if !plan.spec.kind.is_dens() && plan.events.iter().any(|e| matches!(e, SEv::Chunk(_))) {
            let mut p = plan.clone();
            p.events = plan
                .events
                .iter()
                .flat_map(|e| match e {
                    SEv::Chunk(c) => c.iter().map(|i| SEv::Item(*i)).collect::<Vec<_>>(),
                    x => vec![x.clone()],
                })
                .collect();
            out.push(p);
        }
        // inside chunks: drop elements
        for (k, e) in plan.events.iter().enumerate() {
            if let SEv::Chunk(c) = e {
                if c.len() > 1 && out.len() < 200 {
                    for cc in shrink_vec(c).into_iter().take(8) {
                        if cc.is_empty() {
                            continue;
                        }
                        let mut p = plan.clone();
                        p.events[k] = SEv::Chunk(cc);
                        if Stream::covers(&p) {
                            out.push(p);
                        }
                    }
                }
            }
        }
        if plan.other_thread {
            let mut p = plan.clone();
            p.other_thread = false;
            out.push(p);
        }
        // simpler hasher / element type
        if plan.spec.hash != HashT::Fnv && plan.spec.kind != UKind::Smh2U32 {
            let mut p = plan.clone();
            p.spec.hash = HashT::Fnv;
            out.push(p);
        }
        out
    }

    fn doc(&self) -> Doc {
        Doc {
            rule: "seeded world: sketcher kind (10) x element type x hasher x m x item set, delivered reordered / duplicated / re-delivered late / chunked; a run is non-trivial when it has >= 2 distinct items and at least one delivery fault fired; distinct = distinct fingerprints of the delivered event sequence",
            real: &["SuperMinHash", "SuperMinHash2", "SetSketcher", "OptDensMinHash", "RevOptDensMinHash", "FYshuffle", "hashers (Fnv, XxHash, NoHashHasher)"],
            stub: &["SimHasher (keyed byte mixer, configuration swarm only)"],
            assumptions: &[
                "exact f64 ties are not generated on purpose (probability ~2^-52 per pair)",
                "f32 densified sketchers: a u64-view difference with equal float views is accepted only when both items, sketched alone by the real code, land in the same bin with bit-identical value",
                "simulated time = event sequence number; the library has no clock",
            ],
        }
    }
}
