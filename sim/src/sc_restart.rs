//! C13 — after reinit / reset (or ProbOrdMinHash2's self-clearing hash_set) a sketcher behaves
//! exactly like a new one. Arbitrary pre-history (partial streams, merges, finished or unfinished
//! densification, register overflow, half-consumed permutation, extra restarts), then the restart
//! fault, then a seeded delivery. Oracle: all views equal those of a freshly constructed twin given
//! the same deliveries in the same order and chunking.

use crate::core::*;
use crate::nodes::*;
use crate::prng::Rng;
use crate::sc_stream::{gen_delivery, gen_items, SEv};
use crate::sc_wstream::{gen_weights, make_wnode, Variant, WNode, WPlan, ShaKey, PLACEHOLDER};
use serde::{Deserialize, Serialize};

#[derive(Serialize, Deserialize, Clone, Debug, PartialEq)]
pub enum ROp {
    Item(u64),
    Chunk(Vec<u64>),
    Finish,
    /// SetSketch: merge a sketch of these items
    Merge(Vec<u64>),
    /// an additional restart inside the pre-history
    Restart,
    /// read every public view (signature, hash views, low sketch, overflow count, cardinality estimate);
    /// in the compared part the restarted sketcher and its fresh twin must agree at each such read
    Observe,
    /// n restarts in a row, every 16th one followed by an item that is then thrown away by the next restart
    /// (generation counters of every width must wrap without bringing old state back)
    RestartMany(u32, u64),
}

/// what one `Observe` saw
pub type Seen = (Vec<View>, Option<(i64, u64, u64)>);

#[derive(Serialize, Deserialize, Clone, Debug)]
pub enum RestartPlan {
    /// unweighted sketchers: reinit()
    U { spec: USpec, pre: Vec<ROp>, post: Vec<ROp> },
    /// ProbMinHash2: reset(). Items are (id, weight bits)
    /// `pre_mode` / `post_mode`: 0 item-wise, 1 one hash_wset batch, 2 a hash_wset batch then items, 3 item-wise with signature reads in between
    P2 {
        elem: ElemT,
        hash: HashT,
        m: usize,
        pre: Vec<(u64, u64)>,
        post: Vec<(u64, u64)>,
        #[serde(default)]
        pre_mode: u8,
        #[serde(default)]
        post_mode: u8,
    },
    /// ProbOrdMinHash2: the next hash_set clears the state itself
    Ord { hash: HashT, m: u32, l: usize, pre: Vec<Vec<u64>>, post: Vec<u64> },
}

pub struct Restart;

fn apply(node: &mut Box<dyn UNode>, ops: &[ROp], ctx: &mut Ctx, is_dens: bool, pre: bool) -> Vec<Seen> {
    let mut streamed_since_restart = 0usize;
    let mut seen: Vec<Seen> = vec![];
    for op in ops {
        match op {
            ROp::Item(i) => {
                ctx.ev(if pre { "pre-deliver" } else { "deliver" }, *i);
                node.deliver(*i);
                streamed_since_restart += 1;
            }
            ROp::Chunk(c) => {
                ctx.ev(if pre { "pre-deliver-chunk" } else { "deliver-chunk" }, c.len() as u64);
                for i in c {
                    ctx.sched.add(*i);
                }
                if c.is_empty() || (is_dens && streamed_since_restart + c.len() == 0) {
                    continue;
                }
                node.chunk(c);
                streamed_since_restart += c.len();
            }
            ROp::Finish => {
                ctx.ev(if pre { "pre-finish" } else { "finish" }, 0);
                if is_dens && streamed_since_restart == 0 {
                    continue; // finishing an empty stream is a reported failure (C09), not part of this property
                }
                node.finish();
            }
            ROp::Merge(ids) => {
                ctx.ev("pre-merge", ids.len() as u64);
                if node.merge_items(ids) {
                    ctx.count("fault:merge-in-prehistory");
                }
            }
            ROp::Restart => {
                ctx.ev("pre-restart", 0);
                node.restart();
                streamed_since_restart = 0;
            }
            ROp::RestartMany(n, item) => {
                ctx.ev("pre-restart-many", *n as u64);
                ctx.count("fault:many-restarts-in-a-row");
                for k in 0..*n {
                    node.restart();
                    if k % 16 == 7 && k + 1 < *n {
                        node.deliver(*item);
                    }
                }
                streamed_since_restart = 0;
            }
            ROp::Observe => {
                // the views of a densified sketcher exist only once it is finished
                // (and nothing is read from a sketcher that has seen no item since it was created or restarted:
                // what the estimators return on an empty sketch is not part of this property)
                if streamed_since_restart == 0 || (is_dens && !node.dens_state().map(|s| s.nb_empty == 0).unwrap_or(false)) {
                    continue;
                }
                ctx.ev(if pre { "pre-observe" } else { "observe" }, 0);
                ctx.count(if pre { "fault:views-read-in-prehistory" } else { "probe:views-compared-mid-stream" });
                let ex = node.set_extras().map(|(l, o, c)| (l, o, c.to_bits()));
                seen.push((node.views(), ex));
            }
        }
    }
    seen
}

fn p2_apply(n: &mut Box<dyn WNode>, items: &[(u64, u64)], mode: u8, ctx: &mut Ctx, pre: bool) -> Vec<Vec<u64>> {
    let pairs: Vec<(u64, f64)> = items.iter().map(|(i, w)| (*i, f64::from_bits(*w))).collect();
    let mut seen = vec![];
    let split = match mode {
        1 => pairs.len(),
        2 => pairs.len() / 2 + 1,
        _ => 0,
    }
    .min(pairs.len());
    if split > 0 {
        ctx.ev(if pre { "pre-deliver-wset" } else { "deliver-wset" }, split as u64);
        for (i, _) in &pairs[..split] {
            ctx.sched.add(*i);
        }
        n.wset(&pairs[..split]);
    }
    for (k, (i, w)) in pairs[split..].iter().enumerate() {
        ctx.ev(if pre { "pre-deliver" } else { "deliver" }, *i);
        n.item(*i, *w);
        if mode == 3 && k % 3 == 0 {
            seen.push(n.sig());
        }
    }
    seen
}

trait OrdNode {
    fn hash_set(&mut self, s: &[u64]) -> Vec<u64>;
}
impl<H: std::hash::Hasher + Default> OrdNode for probminhash::probminhasher::probordminhash2::ProbOrdMinHash2<H> {
    fn hash_set(&mut self, s: &[u64]) -> Vec<u64> {
        self.hash_set(s)
    }
}
pub fn make_ord(hash: HashT, m: u32, l: usize) -> Box<dyn FnMut(&[u64]) -> Vec<u64>> {
    use probminhash::probminhasher::probordminhash2::ProbOrdMinHash2;
    match hash {
        HashT::NoHash => {
            let mut sk = ProbOrdMinHash2::<probminhash::nohasher::NoHashHasher>::new(m, l);
            Box::new(move |s| OrdNode::hash_set(&mut sk, s))
        }
        HashT::SimA => {
            let mut sk = ProbOrdMinHash2::<crate::hashers::SimA>::new(m, l);
            Box::new(move |s| OrdNode::hash_set(&mut sk, s))
        }
        HashT::Ident => {
            let mut sk = ProbOrdMinHash2::<crate::hashers::IdentHasher>::new(m, l);
            Box::new(move |s| OrdNode::hash_set(&mut sk, s))
        }
        _ => {
            let mut sk = ProbOrdMinHash2::<fnv::FnvHasher>::new(m, l);
            Box::new(move |s| OrdNode::hash_set(&mut sk, s))
        }
    }
}

fn p2plan(elem: ElemT, hash: HashT, m: usize) -> WPlan {
    WPlan { variant: Variant::Pmh2, elem, shakey: ShaKey::U64, hash, m, wset: vec![], events: vec![], scale_exp: 0, split: vec![], tiny: false, ghosts: vec![], long_keys: false }
}

impl Scenario for Restart {
    type Plan = RestartPlan;
    fn name(&self) -> &'static str {
        "restart"
    }
    fn generate(&self, rng: &mut Rng, tier: Tier, _t: &str) -> RestartPlan {
        let r = rng.below(14);
        if r == 0 || r == 1 {
            // ProbMinHash2
            let elem = *rng.pick(&[ElemT::U64, ElemT::U32, ElemT::Usize]);
            let hash = *rng.pick(&[HashT::Fnv, HashT::NoHash, HashT::SimA]);
            let m = rng.log_range(1, 128) as usize;
            let mk = |rng: &mut Rng, n: usize, tiny: bool| -> Vec<(u64, u64)> {
                let ids: Vec<u64> = gen_items(rng, n.max(1), ElemT::U32).into_iter().filter(|i| *i < PLACEHOLDER - 10).collect();
                let ws = gen_weights(rng, ids.len(), tiny);
                let mut v: Vec<(u64, u64)> = ids.iter().zip(ws.iter()).map(|(i, w)| (*i, w.to_bits())).collect();
                rng.shuffle(&mut v);
                v
            };
            let npre = rng.log_range(1, 200) as usize;
            let npost = rng.log_range(1, 200) as usize;
            // bottom-of-range weights leave registers unfilled: reset must still restore the initial state
            let tiny_pre = rng.chance(0.08);
            let tiny_post = tiny_pre && rng.chance(0.5);
            let pre = if rng.chance(0.1) { vec![] } else { mk(rng, npre, tiny_pre) };
            let post = mk(rng, npost, tiny_post);
            let post = if post.is_empty() { vec![(1, 1.0f64.to_bits())] } else { post };
            let pre_mode = *rng.pick(&[0u8, 0, 1, 2, 3]);
            let post_mode = *rng.pick(&[0u8, 0, 1, 2, 3]);
            return RestartPlan::P2 { elem, hash, m, pre, post, pre_mode, post_mode };
        }
        if r == 2 || r == 3 {
            let hash = *rng.pick(&[HashT::Fnv, HashT::SimA, HashT::NoHash]);
            let m = rng.log_range(1, 64) as u32;
            let l = rng.urange(1, 5);
            let seq = |rng: &mut Rng| -> Vec<u64> {
                let n = l + rng.urange(0, 40);
                let alpha = *rng.pick(&[3u64, 10, 1 << 40]);
                (0..n).map(|_| rng.below(alpha)).collect()
            };
            let pre = (0..rng.urange(0, 3)).map(|_| seq(rng)).collect();
            let post = seq(rng);
            return RestartPlan::Ord { hash, m, l, pre, post };
        }
        let big = tier == Tier::Thorough && rng.chance(0.02);
        let mut spec = gen_uspec(rng, &UKind::ALL, if big { 20_000 } else { 256 });
        if spec.kind == UKind::SetU16 && rng.chance(0.5) {
            // make register overflow likely: tiny base, large q
            spec.setp = Some(SetP::new(1.0001, 20.0, 1 << 20));
        }
        let is_dens = spec.kind.is_dens();
        let npool = rng.log_range(2, if big { 20_000 } else { 1500 }) as usize;
        let pool = gen_items(rng, npool, spec.elem);
        let cap = (300_000 / spec.m.max(1)).max(2);
        let history = |rng: &mut Rng, pre: bool| -> Vec<ROp> {
            let n = (rng.log_range(1, pool.len() as u64) as usize).min(cap);
            let start = rng.usize_below(pool.len() - n.min(pool.len() - 1));
            let items: Vec<u64> = pool[start..(start + n).min(pool.len())].to_vec();
            let mut ops: Vec<ROp> = if is_dens {
                if rng.chance(0.5) {
                    let mut v: Vec<ROp> = gen_delivery(rng, &items, false).into_iter().map(|e| if let SEv::Item(i) = e { ROp::Item(i) } else { unreachable!() }).collect();
                    // pre-history may stay unfinished (half-built sketch thrown away); the compared part is finished
                    if !pre || rng.chance(0.6) {
                        v.push(ROp::Finish);
                    }
                    v
                } else {
                    vec![ROp::Chunk(items.clone())]
                }
            } else {
                gen_delivery(rng, &items, true)
                    .into_iter()
                    .map(|e| match e {
                        SEv::Item(i) => ROp::Item(i),
                        SEv::Chunk(c) => ROp::Chunk(c),
                        SEv::Finish => ROp::Finish,
                    })
                    .collect()
            };
            if rng.chance(0.3) {
                // public views read at arbitrary moments (for the densified sketchers they exist once finished)
                for _ in 0..rng.urange(1, 3) {
                    let k = if is_dens { ops.len() } else { rng.usize_below(ops.len() + 1) };
                    ops.insert(k, ROp::Observe);
                }
            }
            if pre {
                if spec.kind.is_set() && rng.chance(0.5) {
                    let k = rng.usize_below(ops.len() + 1);
                    let ids = (0..rng.urange(1, 50)).map(|_| *rng.pick(&pool)).collect();
                    ops.insert(k, ROp::Merge(ids));
                }
                if rng.chance(0.2) {
                    let k = rng.usize_below(ops.len() + 1);
                    ops.insert(k, ROp::Restart);
                }
                if rng.chance(0.03) {
                    // counts around the wrap of 8- and 16-bit generation stamps, bounded by the cost of a restart (O(m))
                    let n = *rng.pick(&[254u32, 255, 256, 257, 510, 511, 512, 65_535, 65_536, 65_537]);
                    let n = if (n as usize) * spec.m > 6_000_000 { *rng.pick(&[254u32, 255, 256, 257, 511]) } else { n };
                    let k = rng.usize_below(ops.len() + 1);
                    ops.insert(k, ROp::RestartMany(n, *rng.pick(&pool)));
                }
                if is_dens && rng.chance(0.3) {
                    // late items after finishing, double finish
                    ops.push(ROp::Item(*rng.pick(&pool)));
                    ops.push(ROp::Finish);
                }
                if rng.chance(0.05) {
                    ops.clear(); // restart of a brand new sketcher
                }
            }
            ops
        };
        let pre = history(rng, true);
        let post = history(rng, false);
        RestartPlan::U { spec, pre, post }
    }

    fn execute(&self, plan: &RestartPlan, ctx: &mut Ctx) -> Result<(), Violation> {
        match plan {
            RestartPlan::U { spec, pre, post } => {
                let is_dens = spec.kind.is_dens();
                let mut a = make_unode(spec);
                apply(&mut a, pre, ctx, is_dens, true);
                decoy_unode(spec);
                if let Some((low, ovf, _)) = a.set_extras() {
                    if ovf > 0 {
                        ctx.count("probe:register-overflow-before-restart");
                    }
                    if low > 0 {
                        ctx.count("probe:lower-bound-raised-before-restart");
                    }
                }
                if let Some(st) = a.dens_state() {
                    if st.nb_empty > 0 && st.nb_empty < spec.m as i64 {
                        ctx.count("probe:unfinished-densification-before-restart");
                    }
                    if st.nb_empty == 0 {
                        ctx.count("probe:finished-densification-before-restart");
                    }
                }
                ctx.ev("restart", 0);
                ctx.count("fault:restart");
                a.restart();
                let seen_a = apply(&mut a, post, ctx, is_dens, false);
                let mut b = make_unode(spec);
                let mut quiet = Ctx::new("-");
                let seen_b = apply(&mut b, post, &mut quiet, is_dens, false);
                let bad = (0..seen_a.len().max(seen_b.len())).find(|k| seen_a.get(*k) != seen_b.get(*k));
                ctx.check("C13", "restarted-equals-fresh", bad.is_none(), || {
                    format!(
                        "{:?} m {}: read number {:?} of the public views in the middle of the stream after the restart differs from the fresh twin's ({} of {} reads happened)",
                        spec.kind,
                        spec.m,
                        bad,
                        seen_a.len(),
                        seen_b.len()
                    )
                })?;
                if is_dens {
                    // compare finished sketches only
                    let fa = a.dens_state().map(|s| s.nb_empty == 0).unwrap_or(true);
                    let fb = b.dens_state().map(|s| s.nb_empty == 0).unwrap_or(true);
                    ctx.check("C13", "restarted-equals-fresh", fa == fb, || format!("{:?} m {}: after the same deliveries the restarted sketcher is finished = {}, the fresh one = {}", spec.kind, spec.m, fa, fb))?;
                    if !fa {
                        // unfinished on both sides: compare the internal state instead of the (unavailable) views
                        let same = a.dens_state() == b.dens_state();
                        return ctx.check("C13", "restarted-equals-fresh", same, || format!("{:?} m {}: unfinished state differs between restarted and fresh sketcher", spec.kind, spec.m));
                    }
                }
                let (va, vb) = (a.views(), b.views());
                crate::sc_stream::digest_views(ctx, &va);
                for (x, y) in va.iter().zip(vb.iter()) {
                    let bad = (0..x.1.len().max(y.1.len())).find(|p| x.1.get(*p) != y.1.get(*p));
                    ctx.check("C13", "restarted-equals-fresh", bad.is_none(), || {
                        format!(
                            "{:?} m {}: view {} position {:?}: restarted sketcher has {:#x?}, fresh twin has {:#x?} ({} pre-history operations, {} operations after the restart)",
                            spec.kind,
                            spec.m,
                            x.0,
                            bad,
                            bad.and_then(|p| x.1.get(p)),
                            bad.and_then(|p| y.1.get(p)),
                            pre.len(),
                            post.len()
                        )
                    })?;
                }
                ctx.nontrivial = !pre.is_empty() && !post.is_empty();
                if spec.kind.is_set() && spec.m <= 64 {
                    // the register type is a type parameter whose bounds also admit signed integers and u64:
                    // the same history item-wise on those instantiations (signature read right after the restart, too)
                    let flat = |ops: &[ROp]| -> Vec<u64> {
                        let mut v = vec![];
                        for op in ops {
                            match op {
                                ROp::Item(i) => v.push(*i),
                                ROp::Chunk(c) => v.extend(c.iter().copied()),
                                _ => {}
                            }
                        }
                        v
                    };
                    let (fpre, fpost) = (flat(pre), flat(post));
                    let params = spec.setp.unwrap().params(spec.m);
                    macro_rules! other_register_type {
                        ($I:ty, $name:expr) => {{
                            use probminhash::setsketcher::SetSketcher;
                            let bh = std::hash::BuildHasherDefault::<fnv::FnvHasher>::default();
                            let mut a = SetSketcher::<$I, u64, fnv::FnvHasher>::new(params, bh.clone());
                            for i in &fpre {
                                let _ = a.sketch(i);
                            }
                            a.reinit();
                            let mut b = SetSketcher::<$I, u64, fnv::FnvHasher>::new(params, bh);
                            let mut same = a.get_signature() == b.get_signature();
                            for i in &fpost {
                                let (ra, rb) = (a.sketch(i).is_ok(), b.sketch(i).is_ok());
                                same = same && ra == rb;
                            }
                            same = same && a.get_signature() == b.get_signature();
                            ctx.count("probe:other-register-types-restarted");
                            ctx.check("C13", "restarted-equals-fresh", same, || {
                                format!("SetSketcher<{}> m {}: after reinit the signature (empty or after {} items) differs from a fresh sketcher's", $name, spec.m, fpost.len())
                            })?;
                        }};
                    }
                    other_register_type!(i32, "i32");
                    other_register_type!(i64, "i64");
                    other_register_type!(u64, "u64");
                }
                Ok(())
            }
            RestartPlan::P2 { elem, hash, m, pre, post, pre_mode, post_mode } => {
                let wp = p2plan(*elem, *hash, *m);
                let mut a = make_wnode(&wp);
                let _ = p2_apply(&mut a, pre, *pre_mode, ctx, true);
                if *pre_mode == 1 || *pre_mode == 2 {
                    ctx.count("fault:batch-entry-in-prehistory");
                }
                ctx.ev("restart", 0);
                ctx.count("fault:restart");
                let ok = a.reset();
                assert!(ok);
                let mut b = make_wnode(&wp);
                let mid_a = p2_apply(&mut a, post, *post_mode, ctx, false);
                let mut quiet = Ctx::new("-");
                let mid_b = p2_apply(&mut b, post, *post_mode, &mut quiet, false);
                let badmid = (0..mid_a.len().max(mid_b.len())).find(|k| mid_a.get(*k) != mid_b.get(*k));
                ctx.check("C13", "restarted-equals-fresh", badmid.is_none(), || {
                    format!("ProbMinHash2 m {}: signature read number {:?} in the middle of the stream after reset differs from the fresh twin's", m, badmid)
                })?;
                let (sa, sb) = (a.sig(), b.sig());
                for x in &sa {
                    ctx.out.add(*x);
                }
                let bad = (0..sa.len()).find(|p| sa[*p] != sb[*p]);
                ctx.nontrivial = !pre.is_empty();
                ctx.check("C13", "restarted-equals-fresh", bad.is_none(), || {
                    format!("ProbMinHash2 m {}: position {:?}: after reset {} , fresh {}", m, bad, bad.map(|p| sa[p]).unwrap_or(0), bad.map(|p| sb[p]).unwrap_or(0))
                })
            }
            RestartPlan::Ord { hash, m, l, pre, post } => {
                let mut a = make_ord(*hash, *m, *l);
                for s in pre {
                    ctx.ev("pre-hash_set", s.len() as u64);
                    let _ = a(s);
                }
                ctx.ev("hash_set", post.len() as u64);
                for e in post {
                    ctx.sched.add(*e);
                }
                ctx.count("fault:restart");
                let sa = a(post);
                let mut b = make_ord(*hash, *m, *l);
                let sb = b(post);
                for x in &sa {
                    ctx.out.add(*x);
                }
                let bad = (0..sa.len()).find(|p| sa[*p] != sb[*p]);
                ctx.nontrivial = !pre.is_empty();
                ctx.check("C13", "restarted-equals-fresh", bad.is_none(), || {
                    format!("ProbOrdMinHash2 m {} l {}: position {:?} differs between an instance with {} earlier hash_set calls and a fresh instance", m, l, bad, pre.len())
                })
            }
        }
    }

    fn shrink(&self, plan: &RestartPlan) -> Vec<RestartPlan> {
        let mut out = vec![];
        match plan {
            RestartPlan::U { spec, pre, post } => {
                for p in shrink_vec(pre) {
                    out.push(RestartPlan::U { spec: spec.clone(), pre: p, post: post.clone() });
                }
                for p in shrink_vec(post) {
                    if !p.is_empty() {
                        out.push(RestartPlan::U { spec: spec.clone(), pre: pre.clone(), post: p });
                    }
                }
                for m in [1usize, 2, spec.m / 2, spec.m.saturating_sub(1)] {
                    if m >= 1 && m < spec.m {
                        let mut s = spec.clone();
                        s.m = m;
                        out.push(RestartPlan::U { spec: s, pre: pre.clone(), post: post.clone() });
                    }
                }
                for (which, ops) in [(0, pre), (1, post)] {
                    for (k, op) in ops.iter().enumerate() {
                        if let ROp::Chunk(c) = op {
                            if c.len() > 1 && out.len() < 300 {
                                for cc in shrink_vec(c).into_iter().take(4) {
                                    if cc.is_empty() {
                                        continue;
                                    }
                                    let mut o = ops.clone();
                                    o[k] = ROp::Chunk(cc);
                                    out.push(if which == 0 { RestartPlan::U { spec: spec.clone(), pre: o, post: post.clone() } } else { RestartPlan::U { spec: spec.clone(), pre: pre.clone(), post: o } });
                                }
                            }
                        }
                    }
                }
            }
            RestartPlan::P2 { elem, hash, m, pre, post, pre_mode, post_mode } => {
                let mk = |m: usize, pre: Vec<(u64, u64)>, post: Vec<(u64, u64)>, a: u8, b: u8| RestartPlan::P2 { elem: *elem, hash: *hash, m, pre, post, pre_mode: a, post_mode: b };
                for p in shrink_vec(pre) {
                    out.push(mk(*m, p, post.clone(), *pre_mode, *post_mode));
                }
                for p in shrink_vec(post) {
                    if !p.is_empty() {
                        out.push(mk(*m, pre.clone(), p, *pre_mode, *post_mode));
                    }
                }
                for mm in [1usize, 2, m / 2] {
                    if mm >= 1 && mm < *m {
                        out.push(mk(mm, pre.clone(), post.clone(), *pre_mode, *post_mode));
                    }
                }
                if *pre_mode != 0 {
                    out.push(mk(*m, pre.clone(), post.clone(), 0, *post_mode));
                }
                if *post_mode != 0 {
                    out.push(mk(*m, pre.clone(), post.clone(), *pre_mode, 0));
                }
            }
            RestartPlan::Ord { hash, m, l, pre, post } => {
                for p in shrink_vec(pre) {
                    out.push(RestartPlan::Ord { hash: *hash, m: *m, l: *l, pre: p, post: post.clone() });
                }
                for p in shrink_vec(post) {
                    if p.len() >= *l {
                        out.push(RestartPlan::Ord { hash: *hash, m: *m, l: *l, pre: pre.clone(), post: p });
                    }
                }
                for mm in [1u32, 2, m / 2] {
                    if mm >= 1 && mm < *m {
                        out.push(RestartPlan::Ord { hash: *hash, m: mm, l: *l, pre: pre.clone(), post: post.clone() });
                    }
                }
            }
        }
        out
    }

    fn doc(&self) -> Doc {
        Doc {
            rule: "seeded pre-history (partial streams with the C04 delivery faults, SetSketch merges, finished / unfinished densification, late items, extra restarts, SetSketcher<u16> with b = 1.0001 and q = 2^20 so that registers overflow, half-consumed permutations) on every sketcher that offers reinit / reset (10 unweighted instantiations, ProbMinHash2) and ProbOrdMinHash2's self-clearing hash_set; then restart; then a seeded delivery given identically to a freshly constructed twin; non-trivial = non-empty pre-history; distinct = distinct history fingerprints",
            real: &["SuperMinHash", "SuperMinHash2", "SetSketcher", "OptDensMinHash", "RevOptDensMinHash", "ProbMinHash2", "ProbOrdMinHash2", "FYshuffle", "MaxValueTracker"],
            stub: &[],
            assumptions: &["only sketches (all views) are compared, not diagnostics such as get_low_sketch", "finishing an empty densified stream is skipped in histories (it is a reported failure, property C09)"],
        }
    }
}

