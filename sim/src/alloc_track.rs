//! Allocator seam (C18, and a safety net for every other scenario).
//!
//! The simulator's global allocator wraps `System`. While a thread is *armed* every block it
//! allocates is recorded (address, size, align) and filled with 0xA5; on `dealloc` the layout is
//! checked against the record, the block is filled with 0xDE and parked in a quarantine instead of
//! being returned to the system, so that (a) a use after free reads poison instead of silently
//! valid bytes, (b) the address cannot be reused and mask the error, (c) a second free of the same
//! block is *recorded* instead of corrupting the heap and aborting the process.
//! Blocks the armed thread did not allocate itself pass through untouched, so nothing that was
//! allocated before arming (or on another thread) can raise an alarm.

use std::alloc::{GlobalAlloc, Layout, System};
use std::cell::{Cell, UnsafeCell};

const SLOTS: usize = 1 << 15;
const MAX_FILL: usize = SLOTS * 3 / 4;
const QUARANTINE_BYTES: usize = 512 << 20;

#[derive(Clone, Copy)]
struct Entry {
    ptr: usize,
    size: usize,
    /// align in the low bits; state in the top: 0 empty, 1 live, 2 quarantined
    align: u32,
    state: u32,
}

struct Table {
    e: UnsafeCell<[Entry; SLOTS]>,
}

thread_local! {
    static ARMED: Cell<bool> = const { Cell::new(false) };
    static PAUSED: Cell<bool> = const { Cell::new(false) };
    static FILL: Cell<usize> = const { Cell::new(0) };
    static QBYTES: Cell<usize> = const { Cell::new(0) };
    static DOUBLE_FREE: Cell<u64> = const { Cell::new(0) };
    static LAYOUT_MISMATCH: Cell<u64> = const { Cell::new(0) };
    static TRACKED_ALLOCS: Cell<u64> = const { Cell::new(0) };
    static TRACKED_FREES: Cell<u64> = const { Cell::new(0) };
    static FIRST: Cell<(usize, usize, usize, usize, usize)> = const { Cell::new((0, 0, 0, 0, 0)) };
    static USED: UnsafeCell<[u32; MAX_FILL + 1]> = const { UnsafeCell::new([0; MAX_FILL + 1]) };
    static TABLE: Table = const { Table { e: UnsafeCell::new([Entry { ptr: 0, size: 0, align: 0, state: 0 }; SLOTS]) } };
}

pub struct TrackAlloc;

#[inline]
fn slot_of(ptr: usize) -> usize {
    ((ptr >> 4).wrapping_mul(0x9E37_79B9_7F4A_7C15) >> 40) & (SLOTS - 1)
}

fn armed() -> bool {
    ARMED.try_with(|a| a.get()).unwrap_or(false) && !PAUSED.try_with(|a| a.get()).unwrap_or(false)
}

fn paused_window() -> bool {
    ARMED.try_with(|a| a.get()).unwrap_or(false) && PAUSED.try_with(|a| a.get()).unwrap_or(false)
}

/// Suspends recording (for a section that starts threads: blocks then cross threads, which the per-thread table
/// cannot follow). Frees of blocks recorded earlier by this thread are still accounted for, so no record goes stale.
pub fn pause() {
    PAUSED.with(|p| p.set(true));
}
pub fn resume() {
    PAUSED.with(|p| p.set(false));
}

unsafe fn find(tab: &mut [Entry; SLOTS], ptr: usize) -> Option<usize> {
    let mut i = slot_of(ptr);
    for _ in 0..SLOTS {
        let e = tab[i];
        if e.state == 0 {
            return None;
        }
        if e.ptr == ptr {
            return Some(i);
        }
        i = (i + 1) & (SLOTS - 1);
    }
    None
}

unsafe impl GlobalAlloc for TrackAlloc {
    unsafe fn alloc(&self, layout: Layout) -> *mut u8 {
        let p = System.alloc(layout);
        if p.is_null() || !armed() {
            return p;
        }
        let _ = TABLE.try_with(|t| {
            let tab = &mut *t.e.get();
            let ptr = p as usize;
            let fill = FILL.with(|f| f.get());
            // the address may still be recorded from an earlier, unobserved life: overwrite
            let idx = match find(tab, ptr) {
                Some(i) => Some(i),
                None if fill < MAX_FILL => {
                    let mut i = slot_of(ptr);
                    while tab[i].state != 0 {
                        i = (i + 1) & (SLOTS - 1);
                    }
                    let _ = USED.try_with(|u| (*u.get())[fill] = i as u32);
                    FILL.with(|f| f.set(fill + 1));
                    Some(i)
                }
                None => None,
            };
            if let Some(i) = idx {
                tab[i] = Entry { ptr, size: layout.size(), align: layout.align() as u32, state: 1 };
                std::ptr::write_bytes(p, 0xA5, layout.size());
                TRACKED_ALLOCS.with(|c| c.set(c.get() + 1));
            }
        });
        p
    }

    unsafe fn dealloc(&self, p: *mut u8, layout: Layout) {
        if paused_window() {
            // not recording, but keep the table truthful: a block recorded earlier is released for real
            let mut forward = true;
            let _ = TABLE.try_with(|t| {
                let tab = &mut *t.e.get();
                if let Some(i) = find(tab, p as usize) {
                    match tab[i].state {
                        1 => tab[i].state = 3,
                        2 => forward = false, // already freed by the program once: do not free the quarantined block again
                        _ => {}
                    }
                }
            });
            if forward {
                System.dealloc(p, layout);
            }
            return;
        }
        if !armed() {
            return System.dealloc(p, layout);
        }
        let mut forward = true;
        let _ = TABLE.try_with(|t| {
            let tab = &mut *t.e.get();
            if let Some(i) = find(tab, p as usize) {
                let e = tab[i];
                if e.state == 2 {
                    // second free of a block that is still in quarantine
                    DOUBLE_FREE.with(|c| c.set(c.get() + 1));
                    FIRST.with(|f| {
                        if f.get().0 == 0 {
                            f.set((1, e.size, e.align as usize, layout.size(), layout.align()))
                        }
                    });
                    forward = false;
                    return;
                }
                if e.state != 1 {
                    // a record of an earlier life of this address: the block is not ours
                    return;
                }
                if e.size != layout.size() || e.align as usize != layout.align() {
                    LAYOUT_MISMATCH.with(|c| c.set(c.get() + 1));
                    FIRST.with(|f| {
                        if f.get().0 == 0 {
                            f.set((2, e.size, e.align as usize, layout.size(), layout.align()))
                        }
                    });
                }
                TRACKED_FREES.with(|c| c.set(c.get() + 1));
                let q = QBYTES.with(|c| c.get());
                if q + e.size <= QUARANTINE_BYTES {
                    std::ptr::write_bytes(p, 0xDE, e.size);
                    tab[i].state = 2;
                    QBYTES.with(|c| c.set(q + e.size));
                    forward = false;
                } else {
                    // quarantine full: really free it (with the layout it was allocated with)
                    tab[i].state = 3;
                    System.dealloc(p, Layout::from_size_align_unchecked(e.size, e.align as usize));
                    forward = false;
                }
            }
        });
        if forward {
            System.dealloc(p, layout);
        }
    }

    unsafe fn realloc(&self, p: *mut u8, layout: Layout, new_size: usize) -> *mut u8 {
        if !armed() && !paused_window() {
            return System.realloc(p, layout, new_size);
        }
        // through alloc + copy + dealloc so that the bookkeeping above sees it
        let new_layout = Layout::from_size_align_unchecked(new_size, layout.align());
        let np = self.alloc(new_layout);
        if !np.is_null() {
            std::ptr::copy_nonoverlapping(p, np, layout.size().min(new_size));
            self.dealloc(p, layout);
        }
        np
    }
}

#[derive(Debug, Default, Clone)]
pub struct Report {
    pub double_free: u64,
    pub layout_mismatch: u64,
    pub tracked_allocs: u64,
    pub tracked_frees: u64,
    pub first: String,
}
impl Report {
    pub fn clean(&self) -> bool {
        self.double_free == 0 && self.layout_mismatch == 0
    }
}

/// what was seen so far in the current armed window (does not stop tracking)
pub fn peek() -> Report {
    let f = FIRST.with(|c| c.get());
    Report {
        double_free: DOUBLE_FREE.with(|c| c.get()),
        layout_mismatch: LAYOUT_MISMATCH.with(|c| c.get()),
        tracked_allocs: TRACKED_ALLOCS.with(|c| c.get()),
        tracked_frees: TRACKED_FREES.with(|c| c.get()),
        first: describe(f),
    }
}

fn describe(f: (usize, usize, usize, usize, usize)) -> String {
    match f.0 {
        1 => format!("second free of a block allocated with size {} align {} (freed again as size {} align {})", f.1, f.2, f.3, f.4),
        2 => format!("block allocated with size {} align {} freed with size {} align {}", f.1, f.2, f.3, f.4),
        _ => String::new(),
    }
}

/// starts tracking on this thread
pub fn arm() {
    reset();
    PAUSED.with(|p| p.set(false));
    ARMED.with(|a| a.set(true));
}

fn reset() {
    DOUBLE_FREE.with(|c| c.set(0));
    LAYOUT_MISMATCH.with(|c| c.set(0));
    TRACKED_ALLOCS.with(|c| c.set(0));
    TRACKED_FREES.with(|c| c.set(0));
    FIRST.with(|c| c.set((0, 0, 0, 0, 0)));
}

/// stops tracking, releases the quarantine for real and returns what was seen
pub fn disarm() -> Report {
    ARMED.with(|a| a.set(false));
    PAUSED.with(|p| p.set(false));
    let f = FIRST.with(|c| c.get());
    let rep = Report {
        double_free: DOUBLE_FREE.with(|c| c.get()),
        layout_mismatch: LAYOUT_MISMATCH.with(|c| c.get()),
        tracked_allocs: TRACKED_ALLOCS.with(|c| c.get()),
        tracked_frees: TRACKED_FREES.with(|c| c.get()),
        first: describe(f),
    };
    TABLE.with(|t| unsafe {
        let tab = &mut *t.e.get();
        let fill = FILL.with(|f| f.get());
        USED.with(|u| {
            let used = &*u.get();
            for k in 0..fill {
                let e = &mut tab[used[k] as usize];
                if e.state == 2 {
                    System.dealloc(e.ptr as *mut u8, Layout::from_size_align_unchecked(e.size, e.align as usize));
                }
                e.state = 0;
                e.ptr = 0;
            }
        });
    });
    FILL.with(|f| f.set(0));
    QBYTES.with(|c| c.set(0));
    rep
}
