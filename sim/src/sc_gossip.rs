//! C05 / C06 — SetSketch nodes gossiping their sketches.
//! 2–6 nodes own a real SetSketcher and a model set. Sources deliver shards (with the C04
//! delivery faults); merges of live or stale snapshots are delivered once, twice, out of order,
//! to the node itself, from mis-parameterised peers; streaming continues after merges.
//! Oracles: CRDT convergence against a fresh sketcher fed the model's union set, low-bound
//! invariant after every event, refusal leaves the receiver unchanged (C05); estimate never
//! decreases, parallel estimator == sequential within the proven rounding bound (C06).

use crate::core::*;
use crate::hashers::*;
use crate::nodes::*;
use crate::sc_stream::gen_items;
use crate::prng::Rng;
use fnv::FnvHasher;
use num::{Bounded, FromPrimitive, Integer, ToPrimitive};
use probminhash::setsketcher::{MleJaccard, SetSketcher};
use rayon::prelude::ParallelSlice;
use serde::{Deserialize, Serialize};
use std::collections::BTreeSet;
use std::fmt::Debug;
use std::hash::{BuildHasherDefault, Hasher};
use twox_hash::XxHash64;

#[derive(Serialize, Deserialize, Clone, Copy, Debug, PartialEq, Eq)]
pub enum BadParam {
    M,
    Q,
    A,
    B,
}

#[derive(Serialize, Deserialize, Clone, Debug, PartialEq)]
pub enum GEv {
    Deliver { node: usize, item: u64 },
    Chunk { node: usize, items: Vec<u64> },
    /// snapshot of `node` stored in `slot` (taken with the real code: merge into an empty sketcher)
    Snapshot { node: usize, slot: usize },
    /// live merge src -> dst (src != dst)
    Merge { src: usize, dst: usize },
    /// delivery of a (possibly stale, possibly already delivered) snapshot
    MergeSnap { slot: usize, dst: usize },
    /// merge attempt from a peer whose parameters differ
    BadMerge { dst: usize, what: BadParam, items: Vec<u64> },
    Checkpoint,
}

#[derive(Serialize, Deserialize, Clone, Debug)]
pub struct GossipPlan {
    pub u16reg: bool,
    pub hash: HashT,
    pub m: usize,
    pub setp: SetP,
    pub nodes: usize,
    pub slots: usize,
    pub events: Vec<GEv>,
}

pub struct Gossip;

/// |x - y| <= bound for two summation orders of m positive terms followed by identical operations
pub fn sum_order_bound(m: usize) -> f64 {
    (4.0 * m as f64 + 8.0) * (2.0f64).powi(-53)
}

/// Bound for "agrees up to rounding" between the parallel and the sketcher's own estimate: the summation-order
/// bound plus the conditioning of the terms themselves. A term b^-k may legitimately be evaluated by two
/// different correctly rounded formulas (exp(-k ln b), powf, a table): a relative error u in the exponent
/// k ln b shows up as k ln b * u in the term. kmax_lnb = largest register times ln b.
pub fn estimate_agreement_bound(m: usize, kmax_lnb: f64) -> f64 {
    sum_order_bound(m) + 16.0 * (kmax_lnb.abs() + 1.0) * (2.0f64).powi(-53)
}

trait Reg: Integer + ToPrimitive + FromPrimitive + Bounded + Copy + Clone + Debug + Send + Sync {}
impl Reg for u16 {}
impl Reg for u32 {}

struct GNode<I: Reg, H: Hasher + Default> {
    sk: SetSketcher<I, u64, H>,
    items: BTreeSet<u64>,
    last_est: f64,
}

fn regs<I: Reg, H: Hasher + Default>(sk: &SetSketcher<I, u64, H>) -> Vec<u64> {
    sk.get_signature().iter().map(|x| x.to_u64().unwrap()).collect()
}

fn exec_gossip<I: Reg, H: Hasher + Default>(plan: &GossipPlan, ctx: &mut Ctx) -> Result<(), Violation>
where
    [I]: ParallelSlice<I>,
{
    let params = plan.setp.params(plan.m);
    let newsk = || SetSketcher::<I, u64, H>::new(params, BuildHasherDefault::<H>::default());
    let mut nodes: Vec<GNode<I, H>> = (0..plan.nodes)
        .map(|_| {
            let sk = newsk();
            let e = sk.get_cardinal_stats().0;
            GNode { sk, items: BTreeSet::new(), last_est: e }
        })
        .collect();
    let mut snaps: Vec<Option<(SetSketcher<I, u64, H>, BTreeSet<u64>)>> = (0..plan.slots).map(|_| None).collect();
    let mut snap_used: Vec<u32> = vec![0; plan.slots];
    let mle = MleJaccard::new(plan.setp.b(), plan.m as u64, plan.setp.a());
    let slack = sum_order_bound(plan.m);
    // decoy: an unrelated sketcher of another size is used and polled first in this thread (per-thread or
    // process-wide scratch state of the estimators must not leak into the nodes of this run)
    {
        let mut decoy = SetSketcher::<I, u64, H>::new(plan.setp.params(2 * plan.m + 3), BuildHasherDefault::<H>::default());
        decoy.sketch_slice(&[0xdec0_u64, 0xdec1]).unwrap();
        std::hint::black_box(decoy.get_cardinal_stats());
        ctx.count("fault:decoy-sketcher-of-other-size-polled-first");
        // same size, a differing only in its fraction (per-thread tables keyed by truncated parameters)
        let mut sp = plan.setp;
        sp.a_bits = (plan.setp.a() * (1.0 + 1.0 / 64.0)).to_bits();
        let mut decoy2 = SetSketcher::<I, u64, H>::new(sp.params(plan.m), BuildHasherDefault::<H>::default());
        decoy2.sketch_slice(&[0xdec2_u64, 0xdec3]).unwrap();
        std::hint::black_box(decoy2.get_cardinal_stats());
    }
    let mut merges = 0u64;
    let mut streamed_after_merge = false;
    let mut merged_nodes: BTreeSet<usize> = BTreeSet::new();

    // checks evaluated after every event on the node it touched
    fn after<I: Reg, H: Hasher + Default>(ctx: &mut Ctx, n: &mut GNode<I, H>, slack: f64, what: &str) -> Result<(), Violation> {
        let r = regs(&n.sk);
        let minreg = *r.iter().min().unwrap() as i64;
        let low = n.sk.get_low_sketch();
        ctx.check("C05", "low-bound-below-min-register", low <= minreg, || {
            format!("after {}: get_low_sketch() = {} exceeds the smallest register {}", what, low, minreg)
        })?;
        if low > 0 {
            ctx.count("probe:setsketch-lower-bound-active");
        }
        let e = n.sk.get_cardinal_stats().0;
        ctx.check("C06", "estimate-monotone", e >= n.last_est * (1.0 - slack), || {
            format!("after {}: cardinality estimate decreased from {:e} to {:e}", what, n.last_est, e)
        })?;
        if e > n.last_est {
            ctx.count("probe:estimate-increased");
        }
        n.last_est = e;
        Ok(())
    }

    let converge = |ctx: &mut Ctx, nodes: &Vec<GNode<I, H>>, when: &str| -> Result<(), Violation> {
        // now and then the Jaccard MLE of two nodes is computed on the same estimator object in between (it calls
        // the parallel estimator internally); whatever it does, later estimates must still follow the registers
        if ctx.wants("C06") && nodes.len() >= 2 && plan.m <= 64 && (ctx.sched.0 ^ ctx.events) % 11 == 0 {
            let (s0, s1) = (nodes[0].sk.get_signature().clone(), nodes[1].sk.get_signature().clone());
            let _ = s0.len() + s1.len();
            // the optimiser's logger works through a background thread: the per-thread allocation tracker must be off
            let _ = crate::alloc_track::disarm();
            let r = caught(|| mle.get_mle(nodes[0].sk.get_signature().as_slice(), nodes[1].sk.get_signature().as_slice()));
            ctx.count(if r.is_ok() { "fault:jaccard-mle-computed-in-between" } else { "observation:jaccard-mle-panicked" });
        }
        for (k, n) in nodes.iter().enumerate() {
            let mut fresh = newsk();
            if !n.items.is_empty() {
                let v: Vec<u64> = n.items.iter().copied().collect();
                fresh.sketch_slice(&v).unwrap();
            }
            let got = regs(&n.sk);
            let want = regs(&fresh);
            let bad = (0..got.len()).find(|p| got[*p] != want[*p]);
            ctx.check("C05", "converges-to-sketch-of-union", bad.is_none() && got.len() == want.len(), || {
                format!(
                    "{}: node {} (|items| = {}) register {:?} = {:?}, fresh sketch of the union set has {:?}",
                    when,
                    k,
                    n.items.len(),
                    bad,
                    bad.map(|p| got[p]),
                    bad.map(|p| want[p])
                )
            })?;
            // C06 (ii): parallel estimator on the raw register slice == sketcher's own estimate
            if ctx.wants("C06") {
                let seq = n.sk.get_cardinal_stats().0;
                crate::parsum::arm(ctx);
                let par = mle.get_cardinal_estimate(n.sk.get_signature().as_slice());
                let rel = ((par - seq) / seq).abs();
                let kmax = got.iter().copied().max().unwrap_or(0) as f64;
                let bound = estimate_agreement_bound(plan.m, kmax * plan.setp.b().ln());
                ctx.check("C06", "parallel-equals-sequential", rel <= bound || par == seq, || {
                    format!("node {}: parallel estimate {:e} vs sequential {:e}, relative gap {:e} > bound {:e}", k, par, seq, rel, bound)
                })?;
            }
            for x in &got {
                ctx.out.add(*x);
            }
        }
        Ok(())
    };

    for ev in &plan.events {
        match ev {
            GEv::Deliver { node, item } => {
                ctx.ev("deliver", *item);
                let n = &mut nodes[*node];
                if !n.items.insert(*item) {
                    ctx.count("fault:duplicate");
                }
                if merged_nodes.contains(node) {
                    streamed_after_merge = true;
                }
                n.sk.sketch(item).unwrap();
                after(ctx, n, slack, "sketch")?;
            }
            GEv::Chunk { node, items } => {
                ctx.ev("deliver-chunk", items.len() as u64);
                let n = &mut nodes[*node];
                for i in items {
                    ctx.sched.add(*i);
                    if !n.items.insert(*i) {
                        ctx.count("fault:duplicate");
                    }
                }
                if merged_nodes.contains(node) {
                    streamed_after_merge = true;
                }
                n.sk.sketch_slice(items).unwrap();
                after(ctx, n, slack, "sketch_slice")?;
            }
            GEv::Snapshot { node, slot } => {
                ctx.ev("snapshot", (*node * 1000 + *slot) as u64);
                let mut s = newsk();
                let r = s.merge(&nodes[*node].sk);
                ctx.check("C05", "merge-accepted", r.is_ok(), || "merge of an equally parameterised sketch into an empty one was refused".into())?;
                snaps[*slot] = Some((s, nodes[*node].items.clone()));
                snap_used[*slot] = 0;
            }
            GEv::Merge { src, dst } => {
                ctx.ev("merge", (*src * 1000 + *dst) as u64);
                assert!(src != dst);
                let (a, b) = if src < dst {
                    let (l, r) = nodes.split_at_mut(*dst);
                    (&l[*src], &mut r[0])
                } else {
                    let (l, r) = nodes.split_at_mut(*src);
                    (&r[0], &mut l[*dst])
                };
                let r = b.sk.merge(&a.sk);
                ctx.check("C05", "merge-accepted", r.is_ok(), || "merge between equally parameterised sketchers was refused".into())?;
                let it: Vec<u64> = a.items.iter().copied().collect();
                b.items.extend(it);
                merges += 1;
                merged_nodes.insert(*dst);
                after(ctx, b, slack, "merge")?;
            }
            GEv::MergeSnap { slot, dst } => {
                ctx.ev("merge-snapshot", (*slot * 1000 + *dst) as u64);
                if let Some((s, items)) = &snaps[*slot] {
                    let n = &mut nodes[*dst];
                    if snap_used[*slot] > 0 {
                        ctx.count("fault:merge-duplicated");
                    }
                    snap_used[*slot] += 1;
                    if items.is_subset(&n.items) {
                        ctx.count("fault:merge-stale-or-self");
                    }
                    let r = n.sk.merge(s);
                    ctx.check("C05", "merge-accepted", r.is_ok(), || "merge of a snapshot with equal parameters was refused".into())?;
                    n.items.extend(items.iter().copied());
                    merges += 1;
                    merged_nodes.insert(*dst);
                    after(ctx, n, slack, "merge of snapshot")?;
                }
            }
            GEv::BadMerge { dst, what, items } => {
                ctx.ev("merge-misparameterised", *dst as u64);
                ctx.count("fault:merge-misparameterised");
                let mut p = plan.setp;
                let mut m = plan.m;
                match what {
                    BadParam::M => m = plan.m + 1 + (items.len() % 3),
                    BadParam::Q => p.q = plan.setp.q + 1,
                    BadParam::A => p.a_bits = (plan.setp.a() * (1.0 + 1e-6)).to_bits(),
                    BadParam::B => p.b_bits = (1.0 + (plan.setp.b() - 1.0) * (1.0 + 1e-4)).to_bits(),
                }
                let mut other = SetSketcher::<I, u64, H>::new(p.params(m), BuildHasherDefault::<H>::default());
                if !items.is_empty() {
                    other.sketch_slice(items).unwrap();
                }
                let n = &mut nodes[*dst];
                let before = (regs(&n.sk), n.sk.get_low_sketch(), n.sk.get_nb_overflow(), n.sk.get_cardinal_stats().0.to_bits());
                let r = n.sk.merge(&other);
                ctx.check("C05", "misparameterised-merge-refused", r.is_err(), || {
                    format!("merge from a sketcher differing in {:?} was accepted", what)
                })?;
                let afterv = (regs(&n.sk), n.sk.get_low_sketch(), n.sk.get_nb_overflow(), n.sk.get_cardinal_stats().0.to_bits());
                ctx.check("C05", "refused-merge-leaves-receiver-unchanged", before == afterv, || {
                    format!("receiver changed by a refused merge (differing {:?})", what)
                })?;
                after(ctx, n, slack, "refused merge")?;
            }
            GEv::Checkpoint => {
                ctx.ev("checkpoint", 0);
                converge(ctx, &nodes, "checkpoint")?;
            }
        }
    }
    converge(ctx, &nodes, "end of run")?;
    for n in &nodes {
        if n.sk.get_nb_overflow() > 0 {
            ctx.count("probe:register-overflow");
            break;
        }
    }
    if streamed_after_merge {
        ctx.count("probe:streamed-after-merge");
    }
    ctx.nontrivial = merges >= 1 && nodes.iter().any(|n| n.items.len() >= 2);
    Ok(())
}

impl Scenario for Gossip {
    type Plan = GossipPlan;
    fn name(&self) -> &'static str {
        "gossip"
    }
    fn generate(&self, rng: &mut Rng, tier: Tier, _target: &str) -> GossipPlan {
        let u16reg = rng.chance(0.5);
        let hash = *rng.pick(&[HashT::Fnv, HashT::Fnv, HashT::SimA, HashT::Xx64]);
        if tier == Tier::Thorough && rng.chance(0.003) {
            // cardinalities up to a million on small sketches: two shards, merge, streaming after the merge
            let m = rng.log_range(1, 64) as usize;
            let setp = gen_setp(rng, u16reg);
            let n = rng.log_range(100_000, 1_000_000);
            let base = rng.u64() >> 3;
            let cut = rng.range(1, n - 1);
            let overlap = rng.range(0, (n - cut).min(50_000));
            let a: Vec<u64> = (0..cut).map(|k| base + k).collect();
            let b: Vec<u64> = (cut - overlap.min(cut)..n).map(|k| base + k).collect();
            let tail: Vec<u64> = (0..rng.range(1, 50_000)).map(|k| base + n + k).collect();
            let events = vec![
                GEv::Chunk { node: 0, items: a },
                GEv::Chunk { node: 1, items: b },
                GEv::Snapshot { node: 1, slot: 0 },
                GEv::Merge { src: 1, dst: 0 },
                GEv::Chunk { node: 0, items: tail },
                GEv::MergeSnap { slot: 0, dst: 0 },
                GEv::Checkpoint,
            ];
            return GossipPlan { u16reg, hash, m, setp, nodes: 2, slots: 1, events };
        }
        let big = tier == Tier::Thorough && rng.chance(0.02);
        let m = if big {
            rng.log_range(256, 8192) as usize
        } else {
            match rng.below(6) {
                0 => 1,
                1 => 2,
                _ => rng.log_range(1, 256) as usize,
            }
        };
        let setp = gen_setp(rng, u16reg);
        let nodes = rng.urange(2, 6);
        let slots = rng.urange(1, 4);
        // a SetSketch item costs up to m steps: bound (items delivered + items re-sketched at checkpoints) x m
        let usize_ = rng.log_range(2, if big { (10_000_000 / m as u64).max(50) } else { 600 }) as usize;
        let universe = gen_items(rng, usize_, ElemT::U64);
        let overlap = rng.chance(0.5);
        let nev = rng.log_range(3, if big { 100 } else { 120 }) as usize;
        let mut events = vec![];
        let p_merge = *rng.pick(&[0.05, 0.15, 0.3]);
        let p_bad = *rng.pick(&[0.0, 0.03, 0.1]);
        let mut have_snap = vec![false; slots];
        for _ in 0..nev {
            let r = rng.f64();
            let node = rng.usize_below(nodes);
            if r < p_merge {
                match rng.below(4) {
                    0 => {
                        let slot = rng.usize_below(slots);
                        events.push(GEv::Snapshot { node, slot });
                        have_snap[slot] = true;
                    }
                    1 | 2 => {
                        let slot = rng.usize_below(slots);
                        if have_snap[slot] {
                            events.push(GEv::MergeSnap { slot, dst: node });
                            if rng.chance(0.3) {
                                // duplicated delivery, possibly to the origin itself later
                                events.push(GEv::MergeSnap { slot, dst: rng.usize_below(nodes) });
                            }
                        } else {
                            events.push(GEv::Snapshot { node, slot });
                            have_snap[slot] = true;
                        }
                    }
                    _ => {
                        let src = rng.usize_below(nodes);
                        if src != node {
                            events.push(GEv::Merge { src, dst: node });
                        }
                    }
                }
            } else if r < p_merge + p_bad {
                let what = *rng.pick(&[BadParam::M, BadParam::Q, BadParam::A, BadParam::B]);
                let k = rng.urange(0, 20);
                let items = (0..k).map(|_| *rng.pick(&universe)).collect();
                events.push(GEv::BadMerge { dst: node, what, items });
            } else if r < p_merge + p_bad + 0.04 {
                events.push(GEv::Checkpoint);
            } else {
                // shard: node k owns residues k mod nodes unless overlap
                let pickitem = |rng: &mut Rng| -> u64 {
                    loop {
                        let idx = rng.usize_below(universe.len());
                        if overlap || idx % nodes == node || universe.len() < 2 * nodes {
                            return universe[idx];
                        }
                    }
                };
                if rng.chance(0.6) {
                    events.push(GEv::Deliver { node, item: pickitem(rng) });
                } else {
                    let k = rng.log_range(1, (universe.len() as u64 / if big { 10 } else { 1 }).clamp(1, 200)) as usize;
                    let items = (0..k).map(|_| pickitem(rng)).collect();
                    events.push(GEv::Chunk { node, items });
                }
            }
        }
        GossipPlan { u16reg, hash, m, setp, nodes, slots, events }
    }

    fn execute(&self, plan: &GossipPlan, ctx: &mut Ctx) -> Result<(), Violation> {
        macro_rules! go {
            ($I:ty) => {
                match plan.hash {
                    HashT::Fnv => exec_gossip::<$I, FnvHasher>(plan, ctx),
                    HashT::SimA => exec_gossip::<$I, SimA>(plan, ctx),
                    HashT::Xx64 => exec_gossip::<$I, XxHash64>(plan, ctx),
                    _ => exec_gossip::<$I, SimB>(plan, ctx),
                }
            };
        }
        if plan.u16reg {
            go!(u16)
        } else {
            go!(u32)
        }
    }

    fn shrink(&self, plan: &GossipPlan) -> Vec<GossipPlan> {
        let mut out = vec![];
        for evs in shrink_vec(&plan.events) {
            let mut p = plan.clone();
            p.events = evs;
            out.push(p);
        }
        for m in [1usize, 2, plan.m / 2, plan.m.saturating_sub(1)] {
            if m >= 1 && m < plan.m {
                let mut p = plan.clone();
                p.m = m;
                out.push(p);
            }
        }
        // chunks -> shorter chunks
        for (k, e) in plan.events.iter().enumerate() {
            match e {
                GEv::Chunk { node, items } if items.len() > 1 && out.len() < 300 => {
                    for c in shrink_vec(items).into_iter().take(6) {
                        if !c.is_empty() {
                            let mut p = plan.clone();
                            p.events[k] = GEv::Chunk { node: *node, items: c };
                            out.push(p);
                        }
                    }
                }
                GEv::BadMerge { dst, what, items } if !items.is_empty() && out.len() < 300 => {
                    let mut p = plan.clone();
                    p.events[k] = GEv::BadMerge { dst: *dst, what: *what, items: items[..items.len() / 2].to_vec() };
                    out.push(p);
                }
                _ => {}
            }
        }
        if plan.hash != HashT::Fnv {
            let mut p = plan.clone();
            p.hash = HashT::Fnv;
            out.push(p);
        }
        out
    }

    fn doc(&self) -> Doc {
        Doc {
            rule: "seeded world: 2-6 SetSketcher nodes (u16/u32 registers, b/a/q/m swarm, 3 hashers) with model sets; events: item / chunk delivery of disjoint or overlapping shards, live merges, snapshots delivered stale / twice / to their origin, merge attempts from mis-parameterised peers (m, q, a, b), checkpoints; non-trivial = at least one accepted merge and a node holding >= 2 items; distinct = distinct event-sequence fingerprints",
            real: &["SetSketcher::{sketch, sketch_slice, merge, get_signature, get_low_sketch, get_nb_overflow, get_cardinal_stats}", "MleJaccard::get_cardinal_estimate", "rayon (real thread pool in this configuration)"],
            stub: &["snapshot = real merge into an empty real sketcher (SetSketcher is not Clone)"],
            assumptions: &[
                "parameters 'different' means materially different (relative gap >= 1e-6 in a, 1e-4 in b-1, or unequal m / q)",
                "two summation orders of m positive terms differ by at most (4m+8)*2^-53 relative (monotonicity uses that slack); the parallel-vs-own comparison adds 16*(kmax*ln b + 1)*2^-53 for two correctly rounded but different evaluations of the terms b^-k",
            ],
        }
    }
}

// ---------------------------------------------------------------------------------------------
// joins: sketch of a set == position-wise join of single-item sketches (C05, first sentence)

#[derive(Serialize, Deserialize, Clone, Debug)]
pub struct JoinPlan {
    pub spec: USpec,
    pub items: Vec<u64>,
    pub order_seed: u64,
}
pub struct Joins;

impl Scenario for Joins {
    type Plan = JoinPlan;
    fn name(&self) -> &'static str {
        "joins"
    }
    fn generate(&self, rng: &mut Rng, tier: Tier, _t: &str) -> JoinPlan {
        let max_m = if tier == Tier::Thorough && rng.chance(0.05) { 4096 } else { 256 };
        let spec = gen_uspec(rng, &[UKind::SmhF64, UKind::SmhF32, UKind::SetU16, UKind::SetU32], max_m);
        let n = rng.log_range(1, 300) as usize;
        let n = n.min(60_000 / spec.m.max(1)).max(1);
        let items = gen_items(rng, n, spec.elem);
        JoinPlan { spec, items, order_seed: rng.u64() }
    }
    fn execute(&self, plan: &JoinPlan, ctx: &mut Ctx) -> Result<(), Violation> {
        let spec = &plan.spec;
        decoy_unode(spec);
        let is_min = matches!(spec.kind, UKind::SmhF64 | UKind::SmhF32);
        let mut order = plan.items.clone();
        Rng::new(plan.order_seed).shuffle(&mut order);
        let mut whole = make_unode(spec);
        // the whole set is streamed in a seeded order, item-wise and in slices of seeded lengths
        let mut cr = Rng::new(plan.order_seed ^ 0x5eed);
        let mut i = 0;
        while i < order.len() {
            let take = if cr.chance(0.5) { 1 } else { cr.urange(1, 7) }.min(order.len() - i);
            if take == 1 && cr.chance(0.6) {
                ctx.ev("deliver", order[i]);
                whole.deliver(order[i]);
            } else {
                ctx.ev("deliver-chunk", take as u64);
                whole.chunk(&order[i..i + take]);
            }
            i += take;
        }
        let got = whole.views()[0].1.clone();
        let mut join: Option<Vec<u64>> = None;
        for i in &plan.items {
            let mut single = make_unode(spec);
            single.deliver(*i);
            ctx.ev("single-item-sketch", *i);
            let v = single.views()[0].1.clone();
            join = Some(match join {
                None => v,
                Some(j) => j
                    .iter()
                    .zip(v.iter())
                    .map(|(a, b)| {
                        if is_min {
                            // order of non-negative floats == order of their bit patterns
                            *a.min(b)
                        } else {
                            *a.max(b)
                        }
                    })
                    .collect(),
            });
        }
        let join = join.unwrap();
        let bad = (0..got.len()).find(|p| got[*p] != join[*p]);
        for x in &got {
            ctx.out.add(*x);
        }
        ctx.nontrivial = plan.items.len() >= 2;
        ctx.check("C05", "sketch-equals-join-of-single-item-sketches", bad.is_none(), || {
            format!(
                "{:?} m={} n={}: position {:?}: sketch of the set has {:#x?}, position-wise {} of single-item sketches has {:#x?}",
                spec.kind,
                spec.m,
                plan.items.len(),
                bad,
                bad.map(|p| got[p]),
                if is_min { "min" } else { "max" },
                bad.map(|p| join[p])
            )
        })
    }
    fn shrink(&self, plan: &JoinPlan) -> Vec<JoinPlan> {
        let mut out = vec![];
        for items in shrink_vec(&plan.items) {
            if !items.is_empty() {
                let mut p = plan.clone();
                p.items = items;
                out.push(p);
            }
        }
        for m in [1usize, 2, plan.spec.m / 2, plan.spec.m.saturating_sub(1)] {
            if m >= 1 && m < plan.spec.m {
                let mut p = plan.clone();
                p.spec.m = m;
                out.push(p);
            }
        }
        out
    }
    fn doc(&self) -> Doc {
        Doc {
            rule: "seeded item set (1..300 items) x SuperMinHash<f64|f32> / SetSketcher<u16|u32> x hasher x m, streamed in a seeded order; compared with the position-wise min (SuperMinHash) or max (SetSketch) of the real single-item sketches; non-trivial = >= 2 items; distinct = distinct delivery fingerprints",
            real: &["SuperMinHash", "SetSketcher"],
            stub: &[],
            assumptions: &["bit patterns of non-negative floats are ordered like the floats"],
        }
    }
}

// ---------------------------------------------------------------------------------------------
// parsum: reduction order of the parallel estimator (C06)

#[derive(Serialize, Deserialize, Clone, Debug)]
pub struct ParsumPlan {
    pub u16reg: bool,
    pub m: usize,
    pub setp: SetP,
    /// register source: 0 = real sketch of n items, 1 = all zero, 2 = arbitrary registers from reg_seed, 3 = all max
    pub source: u8,
    pub n_items: usize,
    pub reg_seed: u64,
    /// seed of the split tree (rayon stub) or index of the real pool
    pub sched_seed: u64,
}
pub struct Parsum;

fn exec_parsum<I: Reg>(plan: &ParsumPlan, ctx: &mut Ctx) -> Result<(), Violation>
where
    [I]: ParallelSlice<I>,
{
    let params = plan.setp.params(plan.m);
    let mut sk = SetSketcher::<I, u64, FnvHasher>::new(params, BuildHasherDefault::<FnvHasher>::default());
    let mut rng = Rng::new(plan.reg_seed);
    let imax = I::max_value().to_u64().unwrap();
    let regs: Vec<I> = match plan.source {
        0 => {
            let items: Vec<u64> = (0..plan.n_items as u64).map(|i| i.wrapping_mul(0x9E37_79B9_7F4A_7C15) ^ plan.reg_seed).collect();
            if !items.is_empty() {
                sk.sketch_slice(&items).unwrap();
            }
            sk.get_signature().clone()
        }
        1 => vec![I::zero(); plan.m],
        2 => (0..plan.m).map(|_| I::from_u64(rng.below(imax.min(plan.setp.q + 1) + 1)).unwrap()).collect(),
        _ => vec![I::from_u64(imax.min(plan.setp.q + 1)).unwrap(); plan.m],
    };
    ctx.ev("registers", plan.source as u64);
    ctx.sched.add(plan.m as u64);
    ctx.sched.add(plan.sched_seed);
    // sequential reference: the sketcher's own estimator needs the registers inside a sketcher; a
    // sketcher whose registers equal `regs` is obtained with the real merge for source 0, and for the
    // synthetic sources the sequential formula is evaluated by the same library through a sketcher
    // built by merging is impossible, so those compare two *parallel* schedules with each other.
    let mle = MleJaccard::new(plan.setp.b(), plan.m as u64, plan.setp.a());
    let slack = sum_order_bound(plan.m);
    crate::parsum::arm_seed(ctx, plan.sched_seed);
    let par1 = crate::parsum::with_schedule(plan.sched_seed, || mle.get_cardinal_estimate(regs.as_slice()));
    if crate::parsum::deterministic() {
        ctx.out.add(par1.to_bits());
    }
    if plan.source == 0 {
        let seq = sk.get_cardinal_stats().0;
        let rel = ((par1 - seq) / seq).abs();
        let kmax = regs.iter().map(|r| r.to_u64().unwrap()).max().unwrap_or(0) as f64;
        let bound = estimate_agreement_bound(plan.m, kmax * plan.setp.b().ln());
        ctx.check("C06", "parallel-equals-sequential", rel <= bound || par1 == seq, || {
            format!("m={} parallel estimate {:e} vs sequential {:e}: relative gap {:e} > bound {:e}", plan.m, par1, seq, rel, bound)
        })?;
        if par1 != seq {
            ctx.count("probe:reduction-order-changed-rounding");
        }
    } else {
        let par2 = crate::parsum::with_schedule(plan.sched_seed ^ 0x5555, || mle.get_cardinal_estimate(regs.as_slice()));
        let ok = if par1.is_finite() && par1 != 0.0 { ((par1 - par2) / par1).abs() <= slack || par1 == par2 } else { par1.to_bits() == par2.to_bits() || (par1.is_infinite() && par2.is_infinite()) };
        ctx.check("C06", "parallel-schedules-agree", ok, || {
            format!("m={} two reduction schedules give {:e} and {:e}", plan.m, par1, par2)
        })?;
    }
    ctx.nontrivial = plan.m >= 2;
    Ok(())
}

impl Scenario for Parsum {
    type Plan = ParsumPlan;
    fn name(&self) -> &'static str {
        "parsum"
    }
    fn generate(&self, rng: &mut Rng, tier: Tier, _t: &str) -> ParsumPlan {
        let u16reg = rng.chance(0.5);
        let maxm = if tier == Tier::Thorough { 200_000 } else { 20_000 };
        let m = match rng.below(5) {
            0 => rng.urange(1, 4),
            _ => rng.log_range(1, maxm) as usize,
        };
        let setp = gen_setp(rng, u16reg);
        let source = *rng.pick(&[0u8, 0, 0, 0, 1, 2, 2, 3]);
        // a SetSketch item costs up to m steps
        let n_items = (rng.log_range(1, 3000) as usize).min(4_000_000 / m.max(1)).max(1);
        ParsumPlan { u16reg, m, setp, source, n_items, reg_seed: rng.u64(), sched_seed: rng.u64() }
    }
    fn execute(&self, plan: &ParsumPlan, ctx: &mut Ctx) -> Result<(), Violation> {
        if plan.u16reg {
            exec_parsum::<u16>(plan, ctx)
        } else {
            exec_parsum::<u32>(plan, ctx)
        }
    }
    fn shrink(&self, plan: &ParsumPlan) -> Vec<ParsumPlan> {
        let mut out = vec![];
        for m in [1usize, 2, plan.m / 2, plan.m.saturating_sub(1)] {
            if m >= 1 && m < plan.m {
                let mut p = plan.clone();
                p.m = m;
                out.push(p);
            }
        }
        if plan.n_items > 1 {
            let mut p = plan.clone();
            p.n_items /= 2;
            out.push(p);
        }
        out
    }
    fn doc(&self) -> Doc {
        Doc {
            rule: "register vectors (real sketches of 1..3000 items, all-zero, arbitrary, all-max) x m (1..200000) x (b,a,q) swarm x reduction schedule (seeded split tree under the rayon stub; pool of 1/2/3/5/8/16 threads under real rayon); non-trivial = m >= 2; distinct = distinct (source, m, schedule) fingerprints",
            real: &["MleJaccard::get_cardinal_estimate", "SetSketcher::get_cardinal_stats"],
            stub: &["rayon (seeded split-tree stub in the sim-rayonstub build; real rayon in the default build)"],
            assumptions: &["two summation orders of m positive terms differ by at most (4m+8)*2^-53 relative"],
        }
    }
}
