//! C15 — max tracker against a reference model; C17 — lazy Fisher-Yates shuffle on a scripted generator.
//! Both are sequential components: the simulator contributes seeded operation histories, a scripted
//! generator as the only seam, a reference model compared after every operation, and replay.

use crate::core::*;
use crate::prng::Rng;
use probminhash::fyshuffle::FYshuffle;
use probminhash::verif::Tracker;
use serde::{Deserialize, Serialize};
use std::collections::BTreeSet;

// ------------------------------------------------------------------------------------------ C15

#[derive(Serialize, Deserialize, Clone, Debug, PartialEq)]
pub enum TOp {
    Update(usize, u64),
    Reset,
    /// n resets in a row (a long-lived tracker)
    ResetMany(u32),
}

#[derive(Serialize, Deserialize, Clone, Debug)]
pub struct TrackerPlan {
    pub m: usize,
    /// the tracker is built in this thread and used in another one
    #[serde(default)]
    pub other_thread: bool,
    pub float: bool,
    #[serde(default)]
    pub vt: TVt,
    /// value bit patterns (f64 bits, or u32 value in the low bits)
    pub ops: Vec<TOp>,
    pub probes: Vec<u64>,
}

pub struct TrackerSc;

/// value types the crate instantiates the tracker with
#[derive(Serialize, Deserialize, Clone, Copy, Debug, PartialEq, Eq, Default)]
pub enum TVt {
    #[default]
    F64,
    F32,
    U32,
    U16,
    I32,
    U64,
    Usize,
}

trait TVal: probminhash::verif::MaxValue + PartialOrd + Copy + std::fmt::Debug + Send {
    /// value encoded in a plan word
    fn decode(bits: u64) -> Self;
    fn type_max() -> Self;
    fn digest(self) -> u64;
    fn up(self) -> Self;
    fn down(self) -> Self;
}
impl TVal for f64 {
    fn decode(b: u64) -> f64 {
        f64::from_bits(b)
    }
    fn type_max() -> f64 {
        f64::MAX
    }
    fn digest(self) -> u64 {
        self.to_bits()
    }
    fn up(self) -> f64 {
        next_up(self)
    }
    fn down(self) -> f64 {
        next_down(self)
    }
}
impl TVal for f32 {
    fn decode(b: u64) -> f32 {
        // plans carry f64 bit patterns for float trackers: narrow (finite values stay finite below f32::MAX)
        let x = f64::from_bits(b);
        if x.abs() >= f32::MAX as f64 { (f32::MAX / 2.0).copysign(x as f32) } else { x as f32 }
    }
    fn type_max() -> f32 {
        f32::MAX
    }
    fn digest(self) -> u64 {
        self.to_bits() as u64
    }
    fn up(self) -> f32 {
        if self >= f32::MAX { self } else if self == 0.0 { f32::from_bits(1) } else if self > 0.0 { f32::from_bits(self.to_bits() + 1) } else { f32::from_bits(self.to_bits() - 1) }
    }
    fn down(self) -> f32 {
        if self <= f32::MIN { self } else if self == 0.0 { -f32::from_bits(1) } else if self > 0.0 { f32::from_bits(self.to_bits() - 1) } else { f32::from_bits(self.to_bits() + 1) }
    }
}
macro_rules! tval_int {
    ($t:ty) => {
        impl TVal for $t {
            fn decode(b: u64) -> $t {
                b as $t
            }
            fn type_max() -> $t {
                <$t>::MAX
            }
            fn digest(self) -> u64 {
                self as u64
            }
            fn up(self) -> $t {
                self.saturating_add(1)
            }
            fn down(self) -> $t {
                self.saturating_sub(1)
            }
        }
    };
}
tval_int!(u32);
tval_int!(u16);
tval_int!(i32);
tval_int!(u64);
tval_int!(usize);

fn exec_tracker<V: TVal>(plan: &TrackerPlan, ctx: &mut Ctx) -> Result<(), Violation> {
    let m = plan.m;
    let t = Tracker::<V>::new(m);
    if plan.other_thread {
        // built in this thread, used in a fresh one (per-thread state of the library must not matter)
        ctx.count("fault:built-here-used-in-another-thread");
        let _ = crate::alloc_track::disarm();
        return std::thread::scope(|sc| sc.spawn(|| exec_tracker_on::<V>(plan, ctx, t)).join().unwrap_or_else(|_| Err(Violation { property: "C15".into(), oracle: "unexpected-panic".into(), key: String::new(), detail: "panic in the other thread".into() })));
    }
    exec_tracker_on::<V>(plan, ctx, t)
}

/// very large trackers: the model keeps a multiset of slot values so that the maximum costs O(log m) per operation
fn exec_tracker_huge<V: TVal>(plan: &TrackerPlan, ctx: &mut Ctx, mut t: Tracker<V>) -> Result<(), Violation> {
    let m = plan.m;
    let mut model: Vec<V> = vec![V::type_max(); m];
    let mut multiset: std::collections::BTreeMap<u64, usize> = std::collections::BTreeMap::new();
    multiset.insert(V::type_max().digest(), m);
    ctx.count("probe:very-deep-tracker");
    for (n, op) in plan.ops.iter().enumerate() {
        if let TOp::Update(k, bits) = op {
            let v = V::decode(*bits);
            ctx.ev("update", (*k as u64) << 32 ^ *bits);
            if v < model[*k] {
                let old = model[*k].digest();
                let c = multiset.get_mut(&old).unwrap();
                *c -= 1;
                if *c == 0 {
                    multiset.remove(&old);
                }
                *multiset.entry(v.digest()).or_insert(0) += 1;
                model[*k] = v;
            }
            t.update(*k, v);
            ctx.check("C15", "slot-value-is-smallest-offered", t.get_value(*k) == model[*k], || {
                format!("m {} after operation {}: slot {} reports {:?}, the smallest value offered is {:?}", m, n, k, t.get_value(*k), model[*k])
            })?;
            // positive floats: the order of bit patterns is the order of values
            let truth_bits = *multiset.keys().next_back().unwrap();
            ctx.check("C15", "reported-maximum-is-largest-slot-value", t.get_max_value().digest() == truth_bits, || {
                format!("m {} after operation {} (update of slot {}): tracker reports maximum {:?}, the largest slot value has bits {:#x}", m, n, k, t.get_max_value(), truth_bits)
            })?;
            let possible = t.is_update_possible(v);
            ctx.check("C15", "update-possible-iff-below-maximum", possible == (v.digest() < truth_bits), || {
                format!("m {} after operation {}: is_update_possible({:?}) = {}", m, n, v, possible)
            })?;
        }
    }
    for k in 0..m {
        ctx.check("C15", "slot-value-is-smallest-offered", t.get_value(k) == model[k], || format!("m {} at the end: slot {} reports {:?}, model {:?}", m, k, t.get_value(k), model[k]))?;
    }
    ctx.out.add(t.get_max_value().digest());
    ctx.nontrivial = true;
    Ok(())
}

fn exec_tracker_on<V: TVal>(plan: &TrackerPlan, ctx: &mut Ctx, mut t: Tracker<V>) -> Result<(), Violation> {
    let m = plan.m;
    if m > 20_000 && plan.vt == TVt::F64 && plan.ops.iter().all(|o| matches!(o, TOp::Update(_, b) if f64::from_bits(*b) >= 0.0)) {
        return exec_tracker_huge::<V>(plan, ctx, t);
    }
    let mut model: Vec<V> = vec![V::type_max(); m];
    let mut ties = false;
    let maxof = |model: &Vec<V>| -> V {
        let mut mx = model[0];
        for x in model.iter() {
            if *x > mx {
                mx = *x;
            }
        }
        mx
    };
    // initial state
    ctx.check("C15", "reported-maximum-is-largest-slot-value", t.get_max_value() == V::type_max(), || {
        format!("m {}: a new tracker reports maximum {:?}, expected the type maximum {:?}", m, t.get_max_value(), V::type_max())
    })?;
    for (n, op) in plan.ops.iter().enumerate() {
        match op {
            TOp::Update(k, bits) => {
                let v = V::decode(*bits);
                ctx.ev("update", (*k as u64) << 32 ^ *bits);
                if v < model[*k] {
                    model[*k] = v;
                } else {
                    ctx.count("fault:non-improving-update");
                }
                let sib = *k ^ 1;
                if sib < m && model[sib] == v {
                    ties = true;
                }
                t.update(*k, v);
            }
            TOp::Reset => {
                ctx.ev("reset", 0);
                ctx.count("fault:reset");
                model.iter_mut().for_each(|x| *x = V::type_max());
                t.reset();
            }
            TOp::ResetMany(cnt) => {
                ctx.ev("reset-many", *cnt as u64);
                ctx.count("fault:many-resets-in-a-row");
                model.iter_mut().for_each(|x| *x = V::type_max());
                for _ in 0..*cnt {
                    t.reset();
                }
            }
        }
        let truth = maxof(&model);
        for k in 0..m {
            ctx.check("C15", "slot-value-is-smallest-offered", t.get_value(k) == model[k], || {
                format!("{:?} m {} after operation {} ({:?}): slot {} reports {:?}, the smallest value offered is {:?}", plan.vt, m, n, op, k, t.get_value(k), model[k])
            })?;
        }
        ctx.check("C15", "reported-maximum-is-largest-slot-value", t.get_max_value() == truth, || {
            format!("{:?} m {} after operation {} ({:?}): tracker reports maximum {:?}, slot values are {:?}", plan.vt, m, n, op, t.get_max_value(), model)
        })?;
        for pb in plan.probes.iter().map(|b| V::decode(*b)).chain([truth, truth.down(), truth.up(), V::type_max()]) {
            ctx.check("C15", "update-possible-iff-below-maximum", t.is_update_possible(pb) == (pb < truth), || {
                format!("{:?} m {} after operation {}: is_update_possible({:?}) = {} but the maximum is {:?}", plan.vt, m, n, pb, t.is_update_possible(pb), truth)
            })?;
        }
        ctx.out.add(t.get_max_value().digest());
    }
    if ties {
        ctx.count("probe:equal-values-in-sibling-slots");
    }
    ctx.nontrivial = plan.ops.len() >= 2;
    Ok(())
}

fn next_up(x: f64) -> f64 {
    if x >= f64::MAX {
        return x;
    }
    if x == 0.0 {
        return f64::from_bits(1);
    }
    let b = x.to_bits();
    f64::from_bits(if x > 0.0 { b + 1 } else { b - 1 })
}
fn next_down(x: f64) -> f64 {
    if x <= f64::MIN {
        return x;
    }
    if x == 0.0 {
        return -f64::from_bits(1);
    }
    let b = x.to_bits();
    f64::from_bits(if x > 0.0 { b - 1 } else { b + 1 })
}

impl Scenario for TrackerSc {
    type Plan = TrackerPlan;
    fn name(&self) -> &'static str {
        "tracker"
    }
    fn generate(&self, rng: &mut Rng, tier: Tier, _t: &str) -> TrackerPlan {
        let m = if rng.chance(0.03) { rng.log_range(41, if tier == Tier::Thorough { 5000 } else { 1000 }) as usize } else { rng.urange(1, 40) };
        // very deep trees (few operations: every check walks all slots)
        let huge = rng.chance(0.002);
        let m = if huge { rng.range(32_769, 70_000) as usize } else { m };
        let vt = *rng.pick(&[TVt::F64, TVt::F64, TVt::F64, TVt::F32, TVt::U32, TVt::U16, TVt::I32, TVt::U64, TVt::Usize]);
        let float = matches!(vt, TVt::F64 | TVt::F32);
        let npool = rng.urange(2, 6);
        let pool: Vec<u64> = (0..npool)
            .map(|_| if float { (match rng.below(4) { 0 => rng.f64(), 1 => rng.f64() * 1e-300, 2 => (rng.range(0, 20) as f64) * 0.5, _ => rng.f64() * 1e300 }).to_bits() } else { { let hi = if rng.chance(0.5) { 8 } else { u32::MAX as u64 }; rng.below(hi) } })
            .collect();
        if huge {
            // every slot receives a value (random order), then some more updates: only then can the root move
            let mut order: Vec<usize> = (0..m).collect();
            rng.shuffle(&mut order);
            let mut ops: Vec<TOp> = order.iter().map(|k| TOp::Update(*k, (1.0 + rng.f64() * 1000.0).to_bits())).collect();
            for _ in 0..rng.urange(10, 2000) {
                ops.push(TOp::Update(rng.usize_below(m), (rng.f64() * 1000.0).to_bits()));
            }
            return TrackerPlan { m, other_thread: false, float: true, vt: TVt::F64, ops, probes: vec![] };
        }
        let nops = rng.log_range(1, if m > 40 { 3 * m as u64 } else { 200 }) as usize;
        let style = rng.below(4);
        let mut cur = if float { 1e6f64 } else { 1e6 };
        let ops = (0..nops)
            .map(|i| {
                if rng.chance(0.02) {
                    return TOp::Reset;
                }
                if m <= 40 && rng.chance(0.0015) {
                    return TOp::ResetMany(*rng.pick(&[255u32, 256, 257, 65_535, 65_536, 65_537]));
                }
                let k = match style {
                    0 => i % m,
                    1 => (i / 2 * 2 + (i & 1)) % m, // sibling pairs
                    _ => rng.usize_below(m),
                };
                let v = match style {
                    0 | 1 if rng.chance(0.7) => *rng.pick(&pool),
                    2 => {
                        // descending run
                        cur *= 0.9;
                        if float { cur.to_bits() } else { cur as u64 }
                    }
                    _ => {
                        if rng.chance(0.5) { *rng.pick(&pool) } else if float { rng.f64().to_bits() } else { rng.below(1000) }
                    }
                };
                TOp::Update(k, v)
            })
            .collect();
        TrackerPlan { m, other_thread: rng.chance(0.08), float, vt, ops, probes: pool }
    }
    fn execute(&self, plan: &TrackerPlan, ctx: &mut Ctx) -> Result<(), Violation> {
        match plan.vt {
            TVt::F64 => exec_tracker::<f64>(plan, ctx),
            TVt::F32 => exec_tracker::<f32>(plan, ctx),
            TVt::U32 => exec_tracker::<u32>(plan, ctx),
            TVt::U16 => exec_tracker::<u16>(plan, ctx),
            TVt::I32 => exec_tracker::<i32>(plan, ctx),
            TVt::U64 => exec_tracker::<u64>(plan, ctx),
            TVt::Usize => exec_tracker::<usize>(plan, ctx),
        }
    }
    fn shrink(&self, plan: &TrackerPlan) -> Vec<TrackerPlan> {
        let mut out = vec![];
        for ops in shrink_vec(&plan.ops) {
            let mut p = plan.clone();
            p.ops = ops;
            out.push(p);
        }
        // smaller m when every slot index still fits
        let maxk = plan.ops.iter().filter_map(|o| if let TOp::Update(k, _) = o { Some(*k) } else { None }).max().unwrap_or(0);
        for m in [maxk + 1, plan.m / 2, plan.m.saturating_sub(1)] {
            if m >= 1 && m < plan.m && m > maxk {
                let mut p = plan.clone();
                p.m = m;
                out.push(p);
            }
        }
        if !plan.probes.is_empty() {
            let mut p = plan.clone();
            p.probes.clear();
            out.push(p);
        }
        out
    }
    fn doc(&self) -> Doc {
        Doc {
            rule: "seeded update / reset histories over m 1..40 (3%: up to 1000, thorough 5000), V in {f64, f32, u32, u16, i32, u64, usize}, values from tie-rich pools of 2..6 values, descending runs, sibling-pair sweeps, non-improving updates, resets; after EVERY operation all slots, the maximum and is_update_possible (pool values, maximum, predecessor, successor) are compared with a vector-of-minima model; non-trivial = >= 2 operations; distinct = distinct history fingerprints. No fault or schedule dimension exists for this sequential component: the simulator is used as seeded history generator + reference model",
            real: &["MaxValueTracker (through the guarded public wrapper probminhash::verif::Tracker)"],
            stub: &[],
            assumptions: &["no NaN values are offered"],
        }
    }
}

// ------------------------------------------------------------------------------------------ C17

/// generator whose outputs are scripted; counts calls
pub struct Script {
    pub words: Vec<u64>,
    pub pos: usize,
    pub calls64: u64,
    pub calls32: u64,
    pub fallback: Rng,
}
impl Script {
    pub fn new(words: Vec<u64>, seed: u64) -> Script {
        Script { words, pos: 0, calls64: 0, calls32: 0, fallback: Rng::new(seed) }
    }
    fn word(&mut self) -> u64 {
        let w = if self.pos < self.words.len() { self.words[self.pos] } else { self.fallback.u64() };
        self.pos += 1;
        w
    }
}
impl rand::RngCore for Script {
    fn next_u32(&mut self) -> u32 {
        self.calls32 += 1;
        (self.word() >> 32) as u32
    }
    fn next_u64(&mut self) -> u64 {
        self.calls64 += 1;
        self.word()
    }
    fn fill_bytes(&mut self, dst: &mut [u8]) {
        for c in dst.chunks_mut(8) {
            let w = self.word().to_le_bytes();
            c.copy_from_slice(&w[..c.len()]);
        }
    }
}

#[derive(Serialize, Deserialize, Clone, Debug, PartialEq)]
pub enum SOp {
    /// one draw; the generator's next word
    Next(u64),
    Reset,
    /// n resets in a row (a long-lived generator)
    ResetMany(u32),
}

#[derive(Serialize, Deserialize, Clone, Debug)]
pub enum ShufMode {
    /// draw / reset history
    History(Vec<SOp>),
    /// m <= 7: force every sequence of choices, expect m! distinct orders
    AllOrders,
    /// measure of the set of generator values mapping to choice c at step j: (j, c) list
    Cells(Vec<(usize, usize)>),
}

#[derive(Serialize, Deserialize, Clone, Debug)]
pub struct ShufPlan {
    pub m: usize,
    pub mode: ShufMode,
    /// the generator object is built in this thread and used in another one
    #[serde(default)]
    pub other_thread: bool,
}

pub struct ShuffleSc;

fn is_perm(block: &[usize], m: usize) -> bool {
    let s: BTreeSet<usize> = block.iter().copied().collect();
    block.len() == m && s.len() == m && s.iter().all(|x| *x < m)
}

/// the word whose unit-interval value is (k + 0.5) / n, assuming the documented 52-bit mapping
fn word_for_choice(c: usize, n: usize) -> u64 {
    let x = (c as f64 + 0.5) / n as f64;
    ((x * (1u64 << 52) as f64) as u64) << 12
}

/// Rank (by position in the arrangement) of the element drawn at step j among the elements not drawn so far,
/// for generator word w, after j draws with word 0. This is independent of how the implementation lays out
/// drawn and undrawn elements: the arrangement is read through the public `get_values()` before the draw.
/// None if the generator is not consumed as one next_u64 per draw or the draw is not an undrawn element.
fn choice_at(m: usize, j: usize, w: u64, bits32: bool) -> Option<usize> {
    let mut sh = FYshuffle::new(m);
    sh.reset();
    let mut words = vec![0u64; j];
    words.push(w);
    let mut g = Script::new(words, 1);
    let mut drawn: BTreeSet<usize> = BTreeSet::new();
    for _ in 0..j {
        let v = sh.next(&mut g);
        if v >= m || !drawn.insert(v) {
            return None;
        }
    }
    let before: Vec<usize> = sh.get_values().clone();
    let v = sh.next(&mut g);
    let pattern_ok = if bits32 { g.calls32 == (j + 1) as u64 && g.calls64 == 0 } else { g.calls64 == (j + 1) as u64 && g.calls32 == 0 };
    if !pattern_ok || v >= m || drawn.contains(&v) || before.len() != m {
        return None;
    }
    // positions of the undrawn elements, in position order; rank of the drawn one among them
    let mut rank = 0usize;
    for (pos, x) in before.iter().enumerate() {
        if drawn.contains(x) {
            continue;
        }
        if *x == v {
            let _ = pos;
            return Some(rank);
        }
        rank += 1;
    }
    None
}

impl Scenario for ShuffleSc {
    type Plan = ShufPlan;
    fn name(&self) -> &'static str {
        "shuffle"
    }
    fn generate(&self, rng: &mut Rng, tier: Tier, _t: &str) -> ShufPlan {
        let r = rng.below(20);
        if r == 0 {
            return ShufPlan { m: rng.urange(1, if tier == Tier::Thorough { 7 } else { 6 }), mode: ShufMode::AllOrders, other_thread: false };
        }
        if r <= 2 {
            let m = rng.log_range(1, if tier == Tier::Thorough { 1 << 20 } else { 1 << 14 }) as usize;
            let cells = (0..rng.urange(1, 4))
                .map(|_| {
                    let j = if rng.chance(0.5) { 0 } else { rng.usize_below(m) };
                    let j = j.min(64); // the first j draws cost O(j) per probe
                    let j = j.min(m - 1);
                    let c = match rng.below(3) {
                        0 => 0,
                        1 => m - j - 1,
                        _ => rng.usize_below(m - j),
                    };
                    (j, c)
                })
                .collect();
            return ShufPlan { m, mode: ShufMode::Cells(cells), other_thread: false };
        }
        let m = if rng.chance(0.03) { rng.log_range(65, if tier == Tier::Thorough { 1 << 20 } else { 1 << 14 }) as usize } else { rng.urange(1, 64) };
        let nops = if m > 64 { rng.urange(1, 3) * m + rng.usize_below(m) } else { rng.urange(1, 4 * m + 4) };
        let p_reset: f64 = *rng.pick(&[0.0, 0.02, 0.1, 0.3]);
        // a reset costs m steps: keep large instances to a handful of resets
        let p_reset = if m > 64 { p_reset.min(6.0 / nops as f64) } else { p_reset };
        let ops = (0..nops)
            .map(|_| {
                if m <= 64 && rng.chance(0.0008) {
                    SOp::ResetMany(*rng.pick(&[255u32, 256, 257, 65_535, 65_536, 65_537]))
                } else if rng.chance(p_reset) {
                    SOp::Reset
                } else {
                    SOp::Next(match rng.below(8) {
                        0 => u64::MAX,        // top of the unit interval
                        1 => 0,               // bottom
                        2 => u64::MAX << 12,  // largest 52-bit mantissa
                        3 => 1 << 63,         // one half exactly
                        4 => (1 << 63) - 1,
                        _ => rng.u64(),
                    })
                }
            })
            .collect();
        ShufPlan { m, mode: ShufMode::History(ops), other_thread: rng.chance(0.08) }
    }
    fn execute(&self, plan: &ShufPlan, ctx: &mut Ctx) -> Result<(), Violation> {
        let m = plan.m;
        ctx.sched.add(m as u64);
        match &plan.mode {
            ShufMode::History(ops) => {
                let run = |ctx: &mut Ctx, mut sh: FYshuffle| -> Result<(), Violation> {
                let mut g = Script::new(vec![], 7);
                // draws since the last reset (or construction), and the words that produced them
                let mut since: Vec<usize> = vec![];
                let mut words_since: Vec<u64> = vec![];
                let mut resets = 0;
                for op in ops {
                    match op {
                        SOp::ResetMany(cnt) => {
                            ctx.ev("reset-many", *cnt as u64);
                            ctx.count("fault:many-resets-in-a-row");
                            for _ in 0..*cnt {
                                sh.reset();
                            }
                            since.clear();
                            words_since.clear();
                            resets += 1;
                        }
                        SOp::Reset => {
                            ctx.ev("reset", since.len() as u64);
                            if since.len() % m != 0 {
                                ctx.count("fault:reset-in-the-middle-of-a-block");
                            }
                            sh.reset();
                            since.clear();
                            words_since.clear();
                            resets += 1;
                        }
                        SOp::Next(w) => {
                            ctx.ev("draw", *w);
                            if *w >> 12 == u64::MAX >> 12 {
                                ctx.count("fault:generator-at-top-of-unit-interval");
                            }
                            g.words = vec![*w];
                            g.pos = 0;
                            let v = sh.next(&mut g);
                            ctx.check("C17", "draw-in-range", v < m, || format!("m {}: draw returned {}", m, v))?;
                            since.push(v);
                            words_since.push(*w);
                            ctx.out.add(v as u64);
                            if since.len() % m == 0 {
                                let block = &since[since.len() - m..];
                                let first = since.len() == m;
                                ctx.check("C17", if first { "block-after-reset-is-permutation" } else { "further-block-is-permutation" }, is_perm(block, m), || {
                                    format!("m {}: draws {}..{} since the last reset are {:?}, not a permutation of 0..m", m, since.len() - m, since.len(), if m <= 32 { block.to_vec() } else { block[..32].to_vec() })
                                })?;
                                if !first {
                                    ctx.count("probe:wrapped-without-reset");
                                }
                                if first {
                                    // history independence: a fresh instance fed the same words draws the same values
                                    let mut fresh = FYshuffle::new(m);
                                    let mut g2 = Script::new(words_since[..m].to_vec(), 7);
                                    let again: Vec<usize> = (0..m).map(|_| fresh.next(&mut g2)).collect();
                                    ctx.check("C17", "draws-after-reset-independent-of-history", again == since[..m], || {
                                        format!("m {}: after {} reset(s) the same generator output gives {:?}, a fresh instance gives {:?}", m, resets, if m <= 32 { since[..m].to_vec() } else { since[..32].to_vec() }, if m <= 32 { again.clone() } else { again[..32].to_vec() })
                                    })?;
                                    if resets > 0 {
                                        ctx.count("probe:history-independence-after-reset-checked");
                                    }
                                }
                            }
                        }
                    }
                }
                ctx.nontrivial = ops.len() >= 2 && m >= 2;
                Ok(())
                };
                let sh0 = FYshuffle::new(m);
                if plan.other_thread {
                    // the object is built in this thread and used in a fresh one (per-thread state of the library must not matter)
                    ctx.count("fault:built-here-used-in-another-thread");
                    let _ = crate::alloc_track::disarm();
                    let r = std::thread::scope(|sc| sc.spawn(|| run(ctx, sh0)).join());
                    match r {
                        Ok(x) => x?,
                        Err(_) => return Err(Violation { property: "C17".into(), oracle: "unexpected-panic".into(), key: String::new(), detail: "panic while the shuffle was used in another thread".into() }),
                    }
                } else {
                    run(ctx, sh0)?;
                }
            }
            ShufMode::AllOrders => {
                ctx.ev("all-orders", m as u64);
                // every sequence of choices (c_0 < m, c_1 < m-1, ...) forced through the generator
                let mut seen: BTreeSet<Vec<usize>> = BTreeSet::new();
                let mut choice = vec![0usize; m];
                let mut total = 0u64;
                let mut skipped = false;
                'outer: loop {
                    let words: Vec<u64> = (0..m).map(|j| word_for_choice(choice[j], m - j)).collect();
                    let mut sh = FYshuffle::new(m);
                    sh.reset();
                    let mut g = Script::new(words, 3);
                    let mut order: Vec<usize> = vec![];
                    let mut drawn: BTreeSet<usize> = BTreeSet::new();
                    for j in 0..m {
                        let before: Vec<usize> = sh.get_values().clone();
                        let v = sh.next(&mut g);
                        // does the forced word select the intended rank among the undrawn elements?
                        let rank = before.iter().filter(|x| !drawn.contains(*x)).position(|x| *x == v);
                        if rank != Some(choice[j]) {
                            skipped = true; // another (possibly equally valid) word-to-choice map: the forcing does not apply
                        }
                        drawn.insert(v);
                        order.push(v);
                    }
                    if g.calls64 != m as u64 || g.calls32 != 0 {
                        skipped = true;
                    }
                    if skipped {
                        break;
                    }
                    total += 1;
                    ctx.check("C17", "block-after-reset-is-permutation", is_perm(&order, m), || format!("m {} choices {:?}: draws {:?}", m, choice, order))?;
                    seen.insert(order);
                    // next choice vector (mixed radix)
                    let mut j = m;
                    loop {
                        if j == 0 {
                            break 'outer;
                        }
                        j -= 1;
                        choice[j] += 1;
                        if choice[j] < m - j {
                            break;
                        }
                        choice[j] = 0;
                    }
                }
                if skipped {
                    ctx.count("skipped:word-to-choice-map-not-the-assumed-one");
                } else {
                    let fact: u64 = (1..=m as u64).product();
                    ctx.count_n("exhaustive:choice-sequences-forced", total);
                    ctx.check("C17", "every-order-produced-by-exactly-one-choice-sequence", total == fact && seen.len() as u64 == fact, || {
                        format!("m {}: {} choice sequences produced {} distinct orders, expected {}", m, total, seen.len(), fact)
                    })?;
                }
                ctx.nontrivial = m >= 2;
            }
            ShufMode::Cells(cells) => {
                for (j, c) in cells {
                    let (j, c) = (*j, *c);
                    let n = m - j;
                    ctx.ev("cell", ((j as u64) << 32) | c as u64);
                    // smallest 52-bit value u whose choice is >= c, by bisection (monotone map assumed and verified at the ends)
                    // one generator word per draw, either 64 bits (52 of them used by a double) or 32 bits
                    let bits32 = choice_at(m, j, 0, false).is_none() && choice_at(m, j, 0, true).is_some();
                    let (grid, shift) = if bits32 { (1u64 << 32, 32) } else { (1u64 << 52, 12) };
                    if bits32 {
                        ctx.count("probe:32-bit-generator-words-per-draw");
                    }
                    let f = |u: u64| choice_at(m, j, u << shift, bits32);
                    let (Some(lo), Some(hi)) = (f(0), f(grid - 1)) else {
                        ctx.count("skipped:generator-consumption-pattern-changed");
                        continue;
                    };
                    // the bisection below needs a monotone word-to-rank map: validate on a few points, else skip
                    let mut probe = Rng::new(0xabc ^ (m as u64) ^ ((j as u64) << 20));
                    let mut pts: Vec<u64> = (0..6).map(|_| probe.below(grid)).collect();
                    pts.sort();
                    let ranks: Vec<Option<usize>> = pts.iter().map(|u| f(*u)).collect();
                    let monotone = lo == 0 && hi == n - 1 && ranks.iter().all(|r| r.is_some()) && ranks.windows(2).all(|w| w[0] <= w[1]);
                    if !monotone {
                        ctx.count("skipped:word-to-choice-map-not-the-assumed-one");
                        continue;
                    }
                    let boundary = |c: usize| -> Option<u64> {
                        if c == 0 {
                            return Some(0);
                        }
                        if c >= n {
                            return Some(grid);
                        }
                        let (mut a, mut b) = (0u64, grid - 1); // f(a) < c <= f(b)
                        while b - a > 1 {
                            let mid = a + (b - a) / 2;
                            if f(mid)? >= c {
                                b = mid;
                            } else {
                                a = mid;
                            }
                        }
                        Some(b)
                    };
                    let (Some(b0), Some(b1)) = (boundary(c), boundary(c + 1)) else {
                        ctx.count("skipped:generator-consumption-pattern-changed");
                        continue;
                    };
                    let width = (b1 - b0) as f64;
                    let expect = grid as f64 / n as f64;
                    ctx.count("exact:cell-measured");
                    ctx.check("C17", "choice-probability-is-uniform", (width - expect).abs() <= 2.0, || {
                        format!("m {} step {} offset {}: {} of 2^52 generator values choose it, uniform would be {:.1}", m, j, c, width, expect)
                    })?;
                    ctx.out.add(b0);
                }
                ctx.nontrivial = m >= 2;
            }
        }
        Ok(())
    }
    fn shrink(&self, plan: &ShufPlan) -> Vec<ShufPlan> {
        let mut out = vec![];
        match &plan.mode {
            ShufMode::History(ops) => {
                for o in shrink_vec(ops) {
                    out.push(ShufPlan { m: plan.m, mode: ShufMode::History(o), other_thread: plan.other_thread });
                }
                for m in [1usize, 2, 3, plan.m / 2, plan.m.saturating_sub(1)] {
                    if m >= 1 && m < plan.m {
                        out.push(ShufPlan { m, mode: ShufMode::History(ops.clone()), other_thread: plan.other_thread });
                    }
                }
                // simpler words
                if ops.iter().any(|o| matches!(o, SOp::Next(w) if *w != 0)) {
                    for k in 0..ops.len().min(40) {
                        if let SOp::Next(w) = &ops[k] {
                            if *w != 0 {
                                let mut o = ops.clone();
                                o[k] = SOp::Next(0);
                                out.push(ShufPlan { m: plan.m, mode: ShufMode::History(o), other_thread: plan.other_thread });
                            }
                        }
                    }
                }
            }
            ShufMode::AllOrders => {
                if plan.m > 1 {
                    out.push(ShufPlan { m: plan.m - 1, mode: ShufMode::AllOrders, other_thread: false });
                }
            }
            ShufMode::Cells(c) => {
                if c.len() > 1 {
                    for x in c {
                        out.push(ShufPlan { m: plan.m, mode: ShufMode::Cells(vec![*x]), other_thread: false });
                    }
                }
                for m in [2usize, 3, plan.m / 2] {
                    if m >= 2 && m < plan.m {
                        let cc: Vec<(usize, usize)> = c.iter().map(|(j, c)| ((*j).min(m - 1), (*c).min(m - 1 - (*j).min(m - 1)))).collect();
                        out.push(ShufPlan { m, mode: ShufMode::Cells(cc), other_thread: false });
                    }
                }
            }
        }
        out
    }
    fn doc(&self) -> Doc {
        Doc {
            rule: "seeded draw / reset histories on a scripted generator (the rng argument is the seam): m 1..64 (3%: up to 2^14, thorough 2^20), up to 4m draws, resets at every cursor position, forced extreme words (all ones, zero, exactly one half, largest mantissa); plus exact sub-checks: all m! choice sequences forced for m <= 6 (thorough 7), and the measure of the set of 52-bit generator values mapping to a choice located by bisection; non-trivial = m >= 2 and >= 2 operations; distinct = distinct history fingerprints",
            real: &["FYshuffle::{new, next, reset, get_values}", "rand::distr::Uniform<f64>"],
            stub: &["the generator passed to next() is scripted (returns the plan's words, counts calls)"],
            assumptions: &["the exact uniformity sub-checks assume one next_u64 per draw, the 52-bit mantissa mapping and a monotone map; they report 'skipped' instead of a violation when the consumption pattern changes"],
        }
    }
}
