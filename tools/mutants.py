#!/usr/bin/env python3
"""Own sensitivity mutants (DESIGN.md section 9): each entry is a textual edit of /repo that breaks one
property while compiling. `tools/mutants.py run [name...]` applies each to /repo in turn, runs the quick
check of its property, expects exit 1 with a VIOLATION line, and always restores /repo afterwards.
`tools/mutants.py neutral` does the same for behaviour-preserving edits and expects exit 0.
Results are written to mutants/RESULTS.md. Nothing is ever committed in /repo."""
import os, subprocess, sys, time, json

ROOT = os.path.dirname(os.path.dirname(os.path.abspath(__file__)))
REPO = "/repo"

# name, property, file, old, new   (old must occur exactly `count` times; default 1)
BREAKING = [
 ("C02-pmh2-no-permutation-reset", "C02", "src/probminhasher/probminhash2.rs",
  "        let mut rng = Xoshiro256PlusPlus::seed_from_u64(id_hash);\n        self.permut_generator.reset();\n",
  "        let mut rng = Xoshiro256PlusPlus::seed_from_u64(id_hash);\n"),
 ("C02-pmh3a-second-pass-drops-one-round-early", "C02", "src/probminhasher/probminhash3.rs",
  "                    if (*winv) * (i as f64) < qmax {", "                    if (*winv) * ((i + 1) as f64) < qmax {", 2),
 ("C02-pmh3-stop-rule-on-slot-instead-of-max", "C02", "src/probminhasher/probminhash3.rs",
  "            h = winv * i as f64;\n            i += 1;\n            if h >= qmax {",
  "            h = winv * i as f64;\n            i += 1;\n            if h >= self.maxvaluetracker.get_value(k) {"),
 ("C02-sha-second-pass-drops-one-round-early", "C02", "src/probminhasher/probminhash3sha.rs",
  "                    if (*winv) * (i as f64) < qmax {", "                    if (*winv) * ((i + 1) as f64) < qmax {", 2),
 ("C04-superminhash-upper-bound-one-too-low", "C04", "src/superminhasher.rs",
  "                    while self.b[self.a_upper] == 0 {\n                        self.a_upper -= 1;\n                    } // end if j < j_2",
  "                    while self.b[self.a_upper] == 0 {\n                        self.a_upper -= 1;\n                    } // end if j < j_2\n                    if self.a_upper > 2 && self.b[self.a_upper] == 1 {\n                        self.a_upper -= 1;\n                    }"),
 ("C04-superminhash2-no-permutation-reset", "C04", "src/superminhasher2.rs",
  "        let distr_unif = Uniform::new(0u64, usize::MAX as u64).unwrap();\n        self.permut_generator.reset();\n",
  "        let distr_unif = Uniform::new(0u64, usize::MAX as u64).unwrap();\n"),
 ("C04-setsketch-lower-bound-from-max", "C04", "src/setsketcher.rs",
  ".fold(self.k_vec[0], |min: I, x| if x < &min { *x } else { min })", ".fold(self.k_vec[0], |min: I, x| if x > &min { *x } else { min })"),
 ("C04-dens-later-item-wins-bin-on-close-values", "C04", "src/densminhash.rs",
  "        if r <= self.hsketch[k] {\n            self.hsketch[k] = r;\n            self.values[k] = hval1;\n            if !self.init[k] {\n                self.init[k] = true;\n                self.nb_empty -= 1;\n            }\n        }\n    } // end of sketch",
  "        if r <= self.hsketch[k] * F::from(1.05).unwrap() {\n            self.hsketch[k] = r;\n            self.values[k] = hval1;\n            if !self.init[k] {\n                self.init[k] = true;\n                self.nb_empty -= 1;\n            }\n        }\n    } // end of sketch"),
 ("C05-merge-takes-min", "C05", "src/setsketcher.rs",
  "            self.k_vec[i] = self.k_vec[i].max(other.k_vec[i]);", "            self.k_vec[i] = self.k_vec[i].min(other.k_vec[i]);"),
 ("C05-merge-imports-lower-bound-of-registers-max", "C05", "src/setsketcher.rs",
  "        self.nb_overflow += other.nb_overflow;\n        //\n        Ok(())",
  "        self.nb_overflow += other.nb_overflow;\n        if other.lower_k > self.lower_k {\n            self.lower_k = other.lower_k + 1.;\n        }\n        Ok(())"),
 ("C05-merge-parameter-check-ignores-a", "C05", "src/setsketcher.rs",
  "            || (self.a - other.a).abs() / self.a >= f64::EPSILON\n", "            || (self.a - other.a).abs() / self.a >= 1.0e-3\n"),
 ("C05-merge-mutates-before-q-check", "C05", "src/setsketcher.rs",
  "        if self.m != other.m || self.q != other.q {\n            return Err(anyhow!(\"non mergeable : different sketching parameters\"));\n        }",
  "        if self.m != other.m {\n            return Err(anyhow!(\"non mergeable : different sketching parameters\"));\n        }\n        self.nb_overflow += other.nb_overflow;\n        if self.q != other.q {\n            return Err(anyhow!(\"non mergeable : different sketching parameters\"));\n        }"),
 ("C06-parallel-sum-in-f32", "C06", "src/setsketcher.rs",
  "        let sumbk: f64 = sketch\n            .into_par_iter()\n            .map(|c| (-(*c).to_f64().unwrap() * (self.b - 1.).ln_1p()).exp())\n            .sum();",
  "        let sumbk: f64 = sketch\n            .into_par_iter()\n            .map(|c| (-(*c).to_f64().unwrap() * (self.b - 1.).ln_1p()).exp() as f32)\n            .sum::<f32>() as f64;"),
 ("C06-parallel-estimator-uses-ln-b-approximation", "C06", "src/setsketcher.rs",
  "            .map(|c| (-(*c).to_f64().unwrap() * (self.b - 1.).ln_1p()).exp())\n            .sum();",
  "            .map(|c| (-(*c).to_f64().unwrap() * self.lnb * (1. + 1.0e-9)).exp())\n            .sum();"),
 ("C06-estimate-drops-when-register-saturates", "C06", "src/setsketcher.rs",
  "                if k > imax {\n                    self.nb_overflow += 1;\n                    self.k_vec[i] = I::from_u64(imax).unwrap();",
  "                if k > imax {\n                    self.nb_overflow += 1;\n                    self.k_vec[i] = I::from_u64(imax >> 1).unwrap();"),
 ("C09-densify-copies-value-without-hash", "C09", "src/densminhash.rs",
  "                        self.values[k] = self.values[j];\n                        self.hsketch[k] = self.hsketch[j];",
  "                        self.hsketch[k] = self.hsketch[j];"),
 ("C09-rev-densify-overwrites-populated-bin", "C09", "src/densminhash.rs",
  "                    if !self.init[j] {\n                        self.values[j] = self.values[k];\n                        self.hsketch[j] = self.hsketch[k];\n                        self.init[j] = true;\n                        self.nb_empty -= 1;\n                    }",
  "                    if !self.init[j] {\n                        self.values[j] = self.values[k];\n                        self.hsketch[j] = self.hsketch[k];\n                        self.init[j] = true;\n                        self.nb_empty -= 1;\n                    } else if self.hsketch[k] < self.hsketch[j] && pass > 3 {\n                        self.values[j] = self.values[k];\n                        self.hsketch[j] = self.hsketch[k];\n                    }"),
 ("C09-empty-stream-check-removed", "C09", "src/densminhash.rs",
  "        if self.nb_empty >= m as i64 {", "        if self.nb_empty > m as i64 {", 2),
 ("C09-end-sketch-redensifies", "C09", "src/densminhash.rs",
  "    pub fn end_sketch(&mut self) {\n        if self.nb_empty == 0 {\n            return;\n        }",
  "    pub fn end_sketch(&mut self) {\n        if self.nb_empty == 0 && self.hsketch.len() < 3 {\n            return;\n        }\n        if self.nb_empty == 0 {\n            let k0 = self.hsketch.len() - 1;\n            self.values[k0] = self.values[0];\n            self.hsketch[k0] = self.hsketch[0];\n            return;\n        }", 2),
 ("C11-early-break-reintroduced", "C11", "src/probminhasher/probordminhash2.rs",
  "                let _inserted =\n                    self.min_store\n                        .update_with_maxtracker(k, &x, i, &mut self.max_tracker);\n",
  "                let _inserted =\n                    self.min_store\n                        .update_with_maxtracker(k, &x, i, &mut self.max_tracker);\n                if !_inserted {\n                    break;\n                }\n"),
 ("C11-indices-not-sorted", "C11", "src/probminhasher/probordminhash2.rs",
  "            self.indices[start..end].sort_unstable();\n", ""),
 ("C11-occurrence-counter-not-cleared", "C11", "src/probminhasher/probordminhash2.rs",
  "        self.counter.clear();\n", ""),
 ("C12-seed-from-thread-rng", "C12", "src/probminhasher/probordminhash2.rs",
  "        let rng = ThreadRng::default();\n        // fixed default seed", "        let mut rng = ThreadRng::default();\n        // fixed default seed", 1, [("        let seed = 0x6a09e667f3bcc909_u64;\n", "        let seed = rng.next_u64();\n")]),
 ("C12-wyhash-seed-from-address", "C12", "src/probminhasher/probordminhash2.rs",
  "            let mut combine_hasher = WyHash::with_seed(self.wyhash_seed);",
  "            let mut combine_hasher = WyHash::with_seed(self.wyhash_seed ^ ((self.hashbuffer.as_ptr() as u64) >> 12 & 1));"),
 ("C12-superminhash-rank-from-static-counter", "C12", "src/superminhasher.rs",
  "        let irank = (self.item_rank) as i64;",
  "        static CALLS: std::sync::atomic::AtomicUsize = std::sync::atomic::AtomicUsize::new(0);\n        let ncalls = CALLS.fetch_add(1, std::sync::atomic::Ordering::Relaxed);\n        let irank = if ncalls % 1000 == 999 { -1 } else { (self.item_rank) as i64 };"),
 ("C13-superminhash-reinit-keeps-upper-bound", "C13", "src/superminhasher.rs",
  "        self.item_rank = 0;\n        self.a_upper = size - 1;\n    }", "        self.item_rank = 0;\n    }"),
 ("C13-setsketch-reinit-keeps-lower-bound", "C13", "src/setsketcher.rs",
  "        self.lower_k = 0.;\n        self.nbmin = 0;\n        self.nb_overflow = 0;\n    } // end of reinit", "        self.nbmin = 0;\n        self.nb_overflow = 0;\n    } // end of reinit"),
 ("C13-dens-reinit-keeps-empty-count", "C13", "src/densminhash.rs",
  "        self.nb_empty = size as i64;\n    } // end of reinit", "        self.nb_empty = self.nb_empty.max(1);\n    } // end of reinit"),
 ("C13-superminhash2-reinit-keeps-l", "C13", "src/superminhasher2.rs",
  "        self.l.fill(size - 1);\n", ""),
 ("C13-pmh2-reset-keeps-tracker", "C13", "src/probminhasher/probminhash2.rs",
  "        self.maxvaluetracker.reset();\n        self.permut_generator.reset();\n    } // end of reset", "        self.permut_generator.reset();\n    } // end of reset"),
 ("C15-sibling-index-k-plus-1", "C15", "src/maxvaluetrack.rs",
  "            let siblidx = current_k ^ 1;", "            let siblidx = if current_k + 1 < self.values.len() { current_k + 1 } else { current_k ^ 1 };"),
 ("C15-propagation-stops-one-level-early", "C15", "src/maxvaluetrack.rs",
  "            if pidx > self.last_index {\n                break;\n            }", "            if pidx >= self.last_index && self.m > 4 {\n                break;\n            }"),
 ("C15-reset-skips-root", "C15", "src/maxvaluetrack.rs",
  "        self.values.fill(V::get_max());", "        let n = self.values.len();\n        self.values[..n - 1].fill(V::get_max());"),
 ("C15-update-possible-uses-le", "C15", "src/maxvaluetrack.rs",
  "        value < self.values[self.last_index]\n", "        value <= self.values[self.last_index]\n"),
 ("C17-reset-keeps-arrangement", "C17", "src/fyshuffle.rs",
  "        self.lastidx = 0;\n        for i in 0..self.m {\n            self.v[i] = i;\n        }", "        self.lastidx = 0;"),
 ("C17-swap-omitted-at-last-position", "C17", "src/fyshuffle.rs",
  "        self.v.swap(idx, self.lastidx);", "        if self.lastidx + 2 < self.m || self.m < 5 {\n            self.v.swap(idx, self.lastidx);\n        }"),
 ("C17-index-in-f32", "C17", "src/fyshuffle.rs",
  "        let idx = self.lastidx + (xsi * (self.m - self.lastidx) as f64) as usize;", "        let idx = self.lastidx + ((xsi as f32) * (self.m - self.lastidx) as f32) as usize;"),
 ("C17-wrap-does-not-restart-cursor", "C17", "src/fyshuffle.rs",
  "        if self.lastidx >= self.m {\n            self.lastidx = 0;", "        if self.lastidx > self.m {\n            self.lastidx = 0;"),
 ("C18-vec-u32-big-endian", "C18", "src/probminhasher/sig.rs",
  "impl Sig for Vec<u32> {\n    fn get_sig(&self) -> Vec<u8> {\n        self.iter().flat_map(|v| v.to_ne_bytes()).collect()", "impl Sig for Vec<u32> {\n    fn get_sig(&self) -> Vec<u8> {\n        self.iter().flat_map(|v| v.to_be_bytes()).collect()"),
 ("C18-vec-u16-raw-parts-again", "C18", "src/probminhasher/sig.rs",
  "impl Sig for Vec<u16> {\n    fn get_sig(&self) -> Vec<u8> {\n        self.iter().flat_map(|v| v.to_ne_bytes()).collect()",
  "impl Sig for Vec<u16> {\n    fn get_sig(&self) -> Vec<u8> {\n        let mut c = self.clone();\n        let ptr = c.as_mut_ptr();\n        let new_len = c.len() * std::mem::size_of::<u16>();\n        unsafe { Vec::<u8>::from_raw_parts(ptr as *mut u8, new_len, new_len) }"),
 ("C18-i16-sign-extended", "C18", "src/probminhasher/sig.rs",
  "impl Sig for i16 {\n    fn get_sig(&self) -> Vec<u8> {\n        Vec::from(self.to_ne_bytes())", "impl Sig for i16 {\n    fn get_sig(&self) -> Vec<u8> {\n        Vec::from((*self as i32).to_ne_bytes())"),
 ("C18-string-lossy-truncation", "C18", "src/probminhasher/sig.rs",
  "        let s: &[u8] = self.as_ref();\n        s.to_vec()", "        let s: &[u8] = self.as_ref();\n        s.iter().copied().filter(|b| *b < 0xf0).collect()"),
 ("C20-no-truncate", "C20", "src/setsketcher.rs", "            .truncate(true)\n", "            .truncate(false)\n"),
 ("C20-append", "C20", "src/setsketcher.rs", "            .truncate(true)\n", "            .append(true)\n"),
 ("C20-panic-on-unexpected-eof", "C20", "src/setsketcher.rs",
  "            Ok(parameters) => parameters,\n            Err(e) => {", "            Ok(parameters) => parameters,\n            Err(e) if e.is_eof() && e.column() > 20 => panic!(\"truncated parameter file : {}\", e),\n            Err(e) => {"),
 ("C20-a-dumped-as-f32", "C20", "src/setsketcher.rs",
  "        to_writer(&mut writer, &self).unwrap();", "        let mut rounded = *self;\n        rounded.a = self.a as f32 as f64;\n        to_writer(&mut writer, &rounded).unwrap();"),
 ("C20-shared-serialisation-buffer-unlocked-between-fill-and-write", "C20", "src/setsketcher.rs",
  "        let mut writer = BufWriter::new(fileres.unwrap());\n        to_writer(&mut writer, &self).unwrap();",
  "        static BUF: std::sync::Mutex<Vec<u8>> = std::sync::Mutex::new(Vec::new());\n        {\n            let mut b = BUF.lock().unwrap();\n            b.clear();\n            to_writer(&mut *b, &self).unwrap();\n        }\n        let mut writer = BufWriter::new(fileres.unwrap());\n        std::io::Write::write_all(&mut writer, &BUF.lock().unwrap()).unwrap();"),
 ("C20-default-on-parse-error", "C20", "src/setsketcher.rs",
  "                return Err(format!(\n                    \"SetSketchParams reload_json could not parse file : {}\",\n                    e\n                ));",
  "                if e.is_eof() {\n                    return Ok(SetSketchParams::default());\n                }\n                return Err(format!(\n                    \"SetSketchParams reload_json could not parse file : {}\",\n                    e\n                ));"),
]

# behaviour-preserving edits: every check of the listed properties must stay silent
NEUTRAL = [
 ("N-dens-murmur-seed", ["C04", "C09", "C12"], "src/densminhash.rs", "murmur3_32(&mut Cursor::new(v.to_ne_bytes()), 127)", "murmur3_32(&mut Cursor::new(v.to_ne_bytes()), 911)", 2),
 ("N-ordminhash-default-seed", ["C11", "C12", "C13"], "src/probminhasher/probordminhash2.rs", "0x6a09e667f3bcc909_u64", "0x0123456789abcdef_u64"),
 ("N-dens-densify-constant", ["C04", "C09", "C12", "C13"], "src/densminhash.rs", "k as u64 + 123743", "k as u64 + 7777"),
 ("N-setsketch-refresh-lower-bound-twice-as-often", ["C04", "C05", "C06", "C13"], "src/setsketcher.rs", "if self.nbmin % self.m == 0 {", "if self.nbmin % (self.m / 2).max(1) == 0 {"),
 ("N-pmh3-strict-vs-nonstrict-stop", ["C02", "C15"], "src/probminhasher/probminhash3.rs", "            if h >= qmax {\n                break;\n            }\n            h += winv", "            if h > qmax {\n                break;\n            }\n            h += winv"),
 ("N-paramfile-pretty-json", ["C20"], "src/setsketcher.rs", "        to_writer(&mut writer, &self).unwrap();", "        serde_json::to_writer_pretty(&mut writer, &self).unwrap();"),
 ("N-superminhash2-draw-range", ["C04", "C12", "C13"], "src/superminhasher2.rs", "Uniform::new(0u64, usize::MAX as u64)", "Uniform::new(1u64, usize::MAX as u64)"),
 ("N-tracker-extra-assert", ["C15", "C02"], "src/maxvaluetrack.rs", "        let mut current_value = value;", "        debug_assert!(k < self.values.len());\n        let mut current_value = value;"),
]


def sh(cmd, cwd=None):
    p = subprocess.run(cmd, cwd=cwd, stdout=subprocess.PIPE, stderr=subprocess.STDOUT, text=True)
    return p.returncode, p.stdout


def apply(entry):
    name, prop, path, old, new = entry[:5]
    count = entry[5] if len(entry) > 5 else 1
    extra = entry[6] if len(entry) > 6 else []
    fp = os.path.join(REPO, path)
    s = open(fp).read()
    if s.count(old) != count:
        return "anchor occurs %d times, expected %d" % (s.count(old), count)
    s = s.replace(old, new)
    for (o, n) in extra:
        if s.count(o) != 1:
            return "extra anchor occurs %d times" % s.count(o)
        s = s.replace(o, n)
    open(fp, "w").write(s)
    return None


def restore():
    sh(["git", "checkout", "--", "."], cwd=REPO)


def clean_repo():
    rc, out = sh(["git", "status", "--porcelain", "--untracked-files=no"], cwd=REPO)
    return out.strip() == ""


def main():
    mode = sys.argv[1] if len(sys.argv) > 1 else "run"
    names = sys.argv[2:]
    if not clean_repo():
        print("/repo has uncommitted changes to tracked files; refusing")
        sys.exit(2)
    rows = []
    try:
        if mode == "run":
            for e in BREAKING:
                if names and e[0] not in names and e[1] not in names:
                    continue
                err = apply(e)
                if err:
                    rows.append((e[0], e[1], "NOT-APPLIED: " + err, 0))
                    print(rows[-1])
                    restore()
                    continue
                t0 = time.time()
                rc, out = sh([os.path.join(ROOT, "check"), e[1], "quick"], cwd=ROOT)
                restore()
                viol = [l for l in out.splitlines() if l.startswith("VIOLATION")]
                orc = [l.strip() for l in out.splitlines() if l.strip().startswith("scenario=")]
                verdict = "caught" if rc == 1 and viol else ("HARNESS-ERROR" if rc == 2 else "MISSED")
                rows.append((e[0], e[1], verdict + (" (" + orc[0][:110] + ")" if orc else ""), time.time() - t0))
                print(rows[-1])
        else:
            for e in NEUTRAL:
                if names and e[0] not in names:
                    continue
                err = apply((e[0], None, e[2], e[3], e[4]) + tuple(e[5:]))
                if err:
                    rows.append((e[0], ",".join(e[1]), "NOT-APPLIED: " + err, 0))
                    print(rows[-1])
                    restore()
                    continue
                t0 = time.time()
                res = []
                for p in e[1]:
                    rc, out = sh([os.path.join(ROOT, "check"), p, "quick"], cwd=ROOT)
                    res.append("%s:%s" % (p, "silent" if rc == 0 else ("ALARM" if rc == 1 else "HARNESS-ERROR")))
                restore()
                rows.append((e[0], ",".join(e[1]), " ".join(res), time.time() - t0))
                print(rows[-1])
    finally:
        restore()
    os.makedirs(os.path.join(ROOT, "mutants"), exist_ok=True)
    fn = os.path.join(ROOT, "mutants", "RESULTS-%s.md" % ("breaking" if mode == "run" else "neutral"))
    if not names:
        with open(fn, "w") as f:
            f.write("| mutant | property | verdict of `./check <property> quick` | seconds |\n|---|---|---|---|\n")
            for r in rows:
                f.write("| %s | %s | %s | %.0f |\n" % r)
    bad = [r for r in rows if ("MISSED" in r[2] or "ALARM" in r[2] or "NOT-APPLIED" in r[2] or "HARNESS" in r[2])]
    print("%d entries, %d need attention" % (len(rows), len(bad)))
    sys.exit(1 if bad else 0)


if __name__ == "__main__":
    main()
