#!/usr/bin/env python3
"""regenerates /verif/MANIFEST.json from the table below (keeps it valid at all times)"""
import json, os, subprocess
ROOT = os.path.dirname(os.path.dirname(os.path.abspath(__file__)))
TECH = "deterministic simulation with fault injection"
NA = {
 "C01":"expectation/variance over hash randomness for fixed inputs: no schedule, fault, clock or history in it; deciding it needs statistical estimation, which is a different technique (DESIGN.md section 7)",
 "C03":"unbiasedness/variance of SuperMinHash over hash randomness and the law of a single-item sketch: statistical, no schedule or fault dimension (DESIGN.md section 7)",
 "C07":"collision-probability model is an expectation over hash randomness; the Jaccard-bounds function is a pure function of (b, p): no schedule or fault dimension (DESIGN.md section 7)",
 "C08":"expectation over hash randomness at all fill ratios: statistical, no schedule or fault dimension (DESIGN.md section 7)",
 "C10":"expectation over hash randomness against the order-min-hash probability: statistical (DESIGN.md section 7)",
 "C14":"estimators are pure functions of two slices; totality of the MLE is a property of inputs only: no schedule, fault or interleaving (DESIGN.md section 7)",
 "C16":"distribution law of a sampler; the only seam (generator argument) yields input enumeration, not a schedule or fault (DESIGN.md section 7)",
 "C19":"bijection of a pure integer function: decided by exhaustive evaluation or proof, not simulation (DESIGN.md section 7)",
}
PLANNED = ["C02","C05","C06","C09","C11","C12","C13","C15","C17","C18","C20"]
CHECKS = {
 "C02": ("exploration",
   "seeded delivery schedules of a weighted set through every entry point (hash_item, weighted-set iterator, IndexMap, HashMap whose iteration order is chosen by a seeded BuildHasher) with reordering, duplicates, late re-delivery and batch splits, for all four variants and all key types; oracles on the real code: replica == canonical delivery, re-inserted pair changes nothing, ProbMinHash3 == 3a, 2^k weight scaling, every position holds an item of the set, union positions come from one side; a divergence is accepted as exact tie only if registers (guarded hook) are bit-equal and both items attain them alone. Known finding K1 (bottom-of-range weights) is listed, not repaired; sampling, not proof",
   "weights and scalings keep race values normal except in the dedicated bottom-of-range sub-scenario (key tiny-weights); std HashMap<_,_,RandomState> input of ProbMinHash2 is observed, not controlled",
   TECH + ": seeded delivery-schedule search with seeded map iteration order, replica-equality and metamorphic oracles"),
 "C11": ("exploration",
   "one multiset delivered as a sequence and as permutations (reversal, rotation, adjacent swap, random) to the same instance after unrelated earlier calls; per position the selected (element, occurrence) pairs, read through a guarded hook, must be identical, and for l = 1 the public signatures must be identical; sampling, not proof",
   "selected indices come from the guarded hook verif_selected(); exact f64 ties of race values are not generated on purpose",
   TECH + ": seeded reordering of a fixed multiset, selection-equality oracle"),
 "C12": ("exploration",
   "the same job executed by replicas in one thread, in several real OS threads under a seeded token scheduler (one operation at a time, constructions included; interleaving replayable) with ambient-state perturbations between operations, and in child processes (fresh ASLR, RandomState keys, MALLOC_PERTURB_); all sketcher types and key types, and byte-slice keys held at every alignment of the caller's memory and in another thread's buffer; oracle = bit-identical outputs; sampling, not proof",
   "process-level nondeterminism is observed, not controlled: it is used only with an equality oracle that holds on every execution of correct code; a failure that shows only across processes may not replay",
   TECH + ": seeded token scheduler over real threads + child processes, replica-equality oracle"),
 "C13": ("exploration",
   "arbitrary seeded pre-history (partial streams, merges, finished/unfinished densification, register overflow, half-consumed permutations, extra restarts, hundreds to 65 537 restarts in a row, reads of every public view) then reinit/reset (or ProbOrdMinHash2's self-clearing hash_set) then a seeded delivery; oracle = all views equal those of a freshly constructed twin given the same deliveries in the same order and chunking, at the end and at every read in the middle of the stream; ProbMinHash2 also through hash_wset batches; SetSketcher also over i32, i64 and u64 registers; sampling, not proof",
   "only sketches are compared (not diagnostics such as get_low_sketch); finishing an empty densified stream is excluded from histories (C09)",
   TECH + ": restart fault after seeded histories, fresh-twin equality oracle"),
 "C15": ("exploration",
   "seeded update/reset histories (tie-rich value pools, sibling-pair sweeps, descending runs, non-improving updates) over all small m, V in {f64,u32}; every slot, the maximum and is_update_possible compared with a vector-of-minima reference model after EVERY operation; plus the in-vivo invariant (reported maximum == max of registers) after every delivery of every weighted-stream run. The component is sequential: the simulator contributes history generation, the reference model and replay, no fault physics",
   "the crate-private tracker is reached through the guarded public wrapper; no NaN offered",
   TECH + ": seeded operation histories against an executable reference model"),
 "C17": ("exploration",
   "seeded draw/reset histories on a scripted generator (the rng argument is the seam) incl. forced extreme outputs: permutation per block, history independence after reset against a fresh instance fed the same generator output; uniformity decided exactly, not statistically: all m! choice sequences forced for m <= 6 (7 in thorough) and the measure of the generator values mapping to a choice located by bisection (up to m = 2^20)",
   "exact uniformity sub-checks assume one next_u64 per draw and a monotone 52-bit mapping and skip themselves (counted) if that changes",
   TECH + ": scripted-generator seam, seeded histories, exhaustive small-m enumeration"),
 "C18": ("exploration",
   "every Sig implementation on seeded values (empty, 1, odd, large vectors; multi-byte strings), directly and as ProbMinHash3aSha keys, executed under a tracking / poisoning / quarantining global allocator: bytes must equal the native-endian representation, no second free, no layout mismatch, freed-memory poison never returned; both tiers also run the workload under Miri (abstract-machine simulator: 1 x 4 seeds quick, 6 x 16 thorough)",
   "memory errors are observed at the allocator seam and by Miri (if Miri cannot run the quick tier says so and relies on the native run); reads of freed memory are seen through the poison pattern failing the byte oracle",
   TECH + ": allocator seam (tracking/poisoning/quarantine) under seeded workloads, Miri in thorough"),
 "C04": ("exploration",
   "seeded search over delivery schedules (reorder, duplicate, late re-delivery, chunking) for all five unweighted sketchers, 10 type instantiations x 3 element types x 7 hashers; oracle = exact equality of the real sketcher's final state with a fresh real sketcher fed the canonical delivery; sampling, not proof",
   "trusts the canonical delivery (sorted, one slice call) as the definition of the sketch of a set; f32 densified sketchers accept a proven true tie only",
   TECH + ": seeded delivery-schedule search, replica-equality oracle"),
 "C05": ("exploration",
   "seeded gossip worlds of 2-6 real SetSketcher nodes with model sets: live / stale / duplicated / self / mis-parameterised merges interleaved with streaming; CRDT-convergence oracle against a fresh sketch of the model's union after arbitrary merge DAGs (subsumes commutativity, associativity, idempotence), low-bound invariant after every event, refusal leaves the receiver unchanged; plus join-of-single-item-sketches for SuperMinHash and SetSketch; sampling, not proof",
   "snapshots are taken with the real merge into an empty sketcher; 'different parameters' means materially different",
   TECH + ": seeded merge-DAG search with reference model (set union) and convergence oracle"),
 "C06": ("exploration",
   "PARTIAL: decides the two non-statistical clauses only. (i) the estimate is sampled after every event of every gossip run and must not decrease; (ii) the parallel estimator equals the sketcher's own estimate within a proven rounding bound under a seeded rayon stub (split tree chosen by the PRNG, replayable) and under real rayon pools of 1,2,3,5,8,16 threads. The accuracy/bias/spread clauses are statements about a distribution over hash randomness and are NOT decided here",
   "rounding bound (4m+8)*2^-53 relative for two summation orders of m positive terms; real-rayon order is observed, not controlled (the bound is order free); statistical clauses undecided",
   TECH + ": seeded reduction-tree schedules through a rayon stub + monotonicity invariant during gossip runs"),
 "C20": ("fault_enumeration",
   "every byte offset of every generated parameter file (and 'before open') is enumerated as crash point, both by truncation in-process and by really killing a child process mid-write through an LD_PRELOAD syscall shim; short writes, short reads, EINTR and ENOSPC are injected; successive dumps of different length into one directory, a second directory dumped in between, two threads dumping at once, directory names that are not UTF-8; oracle = model of the durable file content (old file / new file / proper prefix) deciding what reload may return; parameter tuples are sampled",
   "torn-write crash model (any prefix of the write stream may be durable); finite a, b (degenerate bases and rates included, -0.0 and non-finite values excluded); the two-thread regime is scheduled by the OS, its verdict is interleaving-independent on correct code; the 15-digit / 1-ulp rule of the statement",
   TECH + ": crash-point enumeration with a syscall fault-injection shim, durable-content model"),
 "C09": ("exploration",
   "seeded histories over sketch / sketch_slice / end_sketch / reinit with double finish, late items, empty stream and mid-stream restart, sketch sizes from 1 to 10^5 (beyond a 16-bit index); state read through the guarded hook before and after every finishing step (populated bins untouched, filled bins copy a populated pair, all bins populated, views consistent, idempotence, slice == item-wise + finish); bounded liveness through a step budget in the densify loops",
   "step budget formula in DESIGN.md 6/C09; end_sketch has no return channel so a panic or a visibly unfinished sketch counts as 'failure reported'",
   TECH + ": seeded operation histories, pre/post state relation through a hook, step-budget liveness"),
}
def main():
    import sys
    sys.path.insert(0, ROOT)
    hooks = subprocess.run(["git","-C","/repo","log","--format=%h %s"],capture_output=True,text=True).stdout.splitlines()
    hook_commits = [l.split()[0] for l in hooks if l.split(' ',1)[1].startswith("verif hooks")]
    claimed = sorted(CHECKS)
    m = {
     "version":1,
     "setup_cmd":"./check setup",
     "hooks":{
       "guard":"probminhash_verif",
       "enable":"RUSTFLAGS=--cfg probminhash_verif (set in /verif/.cargo/config.toml; the simulator crates have a path dependency on /repo so every check recompiles the current working tree)",
       "baseline_off_cmd":"cd /repo && cargo nextest run --workspace --no-fail-fast --tool-config-file pb:/w/lib/nextest.toml --profile pb --test-threads 8 --offline",
       "source_commits":hook_commits,
       "add_only":True
     },
     "engines":[
       {"name":"sketchsim","path":"sim/","serves_properties":claimed,"kind_free_text":"seeded deterministic simulator driving the real sketchers: event loop, fault injection, reference models, minimiser, replay files"},
       {"name":"sketchsim-rayonstub","path":"sim-rayonstub/","serves_properties":[c for c in claimed if c=="C06"],"kind_free_text":"same sources, rayon replaced by a seeded split-tree stub (stubs/rayon) through [patch.crates-io]"},
     ],
     "checks":[
      {"property_id":k,"quick_cmd":"./check %s quick"%k,"thorough_cmd":"./check %s thorough"%k,"evidence_file":"evidence/%s.json"%k,
       "replay_cmd_template":"./check %s --replay {path}"%k,"engine":"sketchsim",
       "level_claimed":{"category":v[0],"text":v[1],"design_ref":"6/"+k},
       "level_note":v[2],"technique":v[3]} for k,v in sorted(CHECKS.items())
     ],
     "not_applicable":[{"property_id":k,"reason":v} for k,v in NA.items()] +
        [{"property_id":k,"reason":"claimed in DESIGN.md; its check is not built yet at this commit (work in progress)"} for k in PLANNED if k not in CHECKS],
     "notes":"see DESIGN.md; known findings and fixed defects in KNOWN_FINDINGS.txt; seeded mutants in seeded/"
    }
    json.dump(m, open(os.path.join(ROOT,'MANIFEST.json'),'w'), indent=1)
main()
