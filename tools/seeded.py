#!/usr/bin/env python3
"""Handling of sub-agent written seeded defects.

  tools/seeded.py confirm <worktree-root> [P ...]   confirm each <root>/<P>/mutants/<N> in its own worktree:
        patch applies, builds, demo fails with it, existing tests pass with it, demo passes without it.
        Confirmed ones are copied to /verif/seeded/<P>-<N>/ (patch.diff, demo.rs, README.md, meta.json).
  tools/seeded.py run [name ...]                    apply each /verif/seeded/<name>/patch.diff to /repo, run the
        quick checks listed in meta.json["checks"] (default: its property), record caught / missed, always
        restore /repo. Results in /verif/seeded/RESULTS.md.
"""
import json, os, shutil, subprocess, sys, time, glob
from concurrent.futures import ThreadPoolExecutor

ROOT = os.path.dirname(os.path.dirname(os.path.abspath(__file__)))
SEEDED = os.path.join(ROOT, "seeded")
ENV = dict(os.environ, CARGO_NET_OFFLINE="true")
SKIPS = ["--skip", "test_revoptdens_manybins", "--skip", "test_ordminhash2_p1", "--skip", "test_ordminhash2_p2", "--skip", "test_ordminhash2_p3"]


def sh(cmd, cwd=None, timeout=3600):
    try:
        p = subprocess.run(cmd, cwd=cwd, env=ENV, stdout=subprocess.PIPE, stderr=subprocess.STDOUT, text=True, timeout=timeout)
        return p.returncode, p.stdout
    except subprocess.TimeoutExpired as e:
        return 124, (e.stdout or "") if isinstance(e.stdout, str) else ""


def confirm_one(wt, prop, n):
    """returns dict with the confirmation record"""
    mdir = os.path.join(wt, "mutants", n)
    patch = os.path.join(mdir, "patch.diff")
    demo = os.path.join(mdir, "demo.rs")
    rec = {"property": prop, "mutant": n, "ok": False, "steps": {}}
    if not (os.path.exists(patch) and os.path.exists(demo)):
        rec["steps"]["files"] = "missing"
        return rec
    sh(["git", "checkout", "--", "src", "Cargo.toml"], cwd=wt)
    os.makedirs(os.path.join(wt, "tests"), exist_ok=True)
    tname = "vdemo_%s" % n
    shutil.copy(demo, os.path.join(wt, "tests", tname + ".rs"))
    try:
        # clean tree: demo passes
        rc, out = sh(["cargo", "test", "--offline", "--test", tname], cwd=wt, timeout=1500)
        rec["steps"]["demo_without_patch"] = "pass" if rc == 0 else "FAIL(rc=%d)" % rc
        if rc != 0:
            rec["log"] = out[-1500:]
            return rec
        rc, out = sh(["git", "apply", patch], cwd=wt)
        rec["steps"]["apply"] = "ok" if rc == 0 else "FAIL"
        if rc != 0:
            return rec
        rc, out = sh(["cargo", "build", "--offline"], cwd=wt, timeout=1500)
        rec["steps"]["build"] = "ok" if rc == 0 else "FAIL"
        if rc != 0:
            return rec
        rc, out = sh(["cargo", "test", "--offline", "--test", tname], cwd=wt, timeout=1500)
        rec["steps"]["demo_with_patch"] = "fails (as required)" if rc != 0 else "PASSES"
        if rc == 0:
            return rec
        fl = [l for l in out.splitlines() if "panicked" in l or "assertion" in l]
        rec["demo_failure"] = fl[:2]
        rc, out = sh(["cargo", "test", "--offline", "--lib", "--", "--test-threads", "4"] + SKIPS, cwd=wt, timeout=3000)
        res = [l for l in out.splitlines() if l.startswith("test result")]
        rec["steps"]["existing_tests_with_patch"] = (res[-1] if res else "no result") if rc == 0 else "FAIL(rc=%d) %s" % (rc, res[-1] if res else "")
        if rc != 0:
            rec["log"] = "\n".join([l for l in out.splitlines() if "FAILED" in l or "failed" in l][:10])
            return rec
        rec["ok"] = True
        return rec
    finally:
        sh(["git", "checkout", "--", "src", "Cargo.toml"], cwd=wt)
        try:
            os.remove(os.path.join(wt, "tests", tname + ".rs"))
        except OSError:
            pass


def confirm_prop(root, prop):
    wt = os.path.join(root, prop)
    out = []
    for n in sorted(os.listdir(os.path.join(wt, "mutants"))) if os.path.isdir(os.path.join(wt, "mutants")) else []:
        t0 = time.time()
        rec = confirm_one(wt, prop, n)
        rec["seconds"] = round(time.time() - t0)
        print(json.dumps({k: rec[k] for k in ("property", "mutant", "ok", "steps", "seconds")}), flush=True)
        if rec["ok"]:
            dst = os.path.join(SEEDED, "%s-%s%s" % (prop, os.environ.get("SEEDED_PREFIX", ""), n))
            os.makedirs(dst, exist_ok=True)
            for f in ("patch.diff", "demo.rs", "README.md"):
                if os.path.exists(os.path.join(wt, "mutants", n, f)):
                    shutil.copy(os.path.join(wt, "mutants", n, f), os.path.join(dst, f))
            for extra in ("demo_unit.rs",):
                if os.path.exists(os.path.join(wt, "mutants", n, extra)):
                    shutil.copy(os.path.join(wt, "mutants", n, extra), os.path.join(dst, extra))
            meta_path = os.path.join(dst, "meta.json")
            meta = json.load(open(meta_path)) if os.path.exists(meta_path) else {}
            meta.update({
                "property": prop,
                "origin": "independent sub-agent given only the property text and a scratch worktree",
                "confirmed": rec["steps"],
                "demo_failure": rec.get("demo_failure", []),
                "confirm_commands": ["cargo test --offline --test demo (clean tree: pass)", "git apply patch.diff", "cargo build --offline", "cargo test --offline --test demo (must fail)", "cargo test --offline --lib -- --test-threads 4 --skip test_revoptdens_manybins --skip test_ordminhash2_p1 --skip test_ordminhash2_p2 --skip test_ordminhash2_p3 (34 passed)"],
                "base_commit": sh(["git", "rev-parse", "HEAD"], cwd=wt)[1].strip(),
            })
            meta.setdefault("needs_to_manifest", "see README.md")
            meta.setdefault("checks", [prop])
            json.dump(meta, open(meta_path, "w"), indent=1)
        out.append(rec)
    return out


def run_checks(names):
    rc, out = sh(["git", "status", "--porcelain", "--untracked-files=no"], cwd="/repo")
    if out.strip():
        print("/repo has uncommitted changes; refusing")
        sys.exit(2)
    rows = []
    dirs = sorted(d for d in os.listdir(SEEDED) if os.path.isdir(os.path.join(SEEDED, d)))
    for d in dirs:
        if names and d not in names and d.split("-")[0] not in names:
            continue
        meta_path = os.path.join(SEEDED, d, "meta.json")
        meta = json.load(open(meta_path))
        try:
            rc, out = sh(["git", "apply", os.path.join(SEEDED, d, "patch.diff")], cwd="/repo")
            if rc != 0:
                rows.append((d, meta["property"], "patch does not apply to current /repo", ""))
                continue
            results = {}
            for p in meta.get("checks", [meta["property"]]):
                t0 = time.time()
                rc, out = sh([os.path.join(ROOT, "check"), p, meta.get("tier", "quick")], cwd=ROOT, timeout=7200)
                orc = [l.strip() for l in out.splitlines() if l.strip().startswith("scenario=")]
                results[p] = {"exit": rc, "verdict": "caught" if rc == 1 else ("silent" if rc == 0 else "harness-error"), "first": orc[0][:160] if orc else "", "seconds": round(time.time() - t0)}
            meta["check_results"] = results
            meta["ran"] = ["git -C /repo apply seeded/%s/patch.diff" % d] + ["./check %s %s" % (p, meta.get("tier", "quick")) for p in results] + ["git -C /repo checkout -- ."]
            json.dump(meta, open(meta_path, "w"), indent=1)
            own = results.get(meta["property"], {})
            rows.append((d, meta["property"], " ".join("%s:%s" % (p, r["verdict"]) for p, r in results.items()), own.get("first", "")))
            print(rows[-1], flush=True)
        finally:
            sh(["git", "checkout", "--", "."], cwd="/repo")
            sh(["git", "clean", "-fdq", "src"], cwd="/repo")  # files a patch added
    if not names:
        with open(os.path.join(SEEDED, "RESULTS.md"), "w") as f:
            f.write("| seeded change | property | quick checks | first report |\n|---|---|---|---|\n")
            for r in rows:
                f.write("| %s | %s | %s | %s |\n" % r)
    missed = [r for r in rows if ("%s:caught" % r[1]) not in r[2]]
    print("%d seeded changes, %d not caught by the check of their own property" % (len(rows), len(missed)))
    for r in missed:
        print("  MISSED:", r[0], r[2])


def main():
    if len(sys.argv) < 2:
        print(__doc__)
        sys.exit(2)
    if sys.argv[1] == "confirm":
        root = sys.argv[2]
        props = sys.argv[3:] or sorted(d for d in os.listdir(root) if os.path.isdir(os.path.join(root, d, "mutants")))
        os.makedirs(SEEDED, exist_ok=True)
        with ThreadPoolExecutor(max_workers=int(os.environ.get("SEEDED_JOBS", "4"))) as ex:
            res = list(ex.map(lambda p: confirm_prop(root, p), props))
        bad = [r for rr in res for r in rr if not r["ok"]]
        print("confirmed %d, rejected %d" % (sum(len(rr) for rr in res) - len(bad), len(bad)))
        for r in bad:
            print("REJECTED", r["property"], r["mutant"], r["steps"], r.get("log", "")[:500])
    elif sys.argv[1] == "run":
        run_checks(sys.argv[2:])
    elif sys.argv[1] == "report":
        # rebuild RESULTS.md from the check_results recorded in every meta.json
        rows = []
        for d in sorted(x for x in os.listdir(SEEDED) if os.path.isdir(os.path.join(SEEDED, x))):
            m = json.load(open(os.path.join(SEEDED, d, "meta.json")))
            res = m.get("check_results", {})
            own = res.get(m["property"], {})
            th = m.get("thorough_results", {})
            rows.append((d, m["property"], " ".join("%s:%s" % (p, r["verdict"]) for p, r in res.items()) + ("".join(" ; thorough %s:%s" % (p, r["verdict"]) for p, r in th.items())), own.get("first", "")[:110], m.get("needs_to_manifest", "")[:150]))
        with open(os.path.join(SEEDED, "RESULTS.md"), "w") as f:
            f.write("| seeded change | property | quick checks | first report | needs |\n|---|---|---|---|---|\n")
            for r in rows:
                f.write("| %s | %s | %s | %s | %s |\n" % tuple(str(x).replace("|", "/") for x in r))
            caught = sum(1 for r in rows if ("%s:caught" % r[1]) in r[2].split(" ; ")[0])
            f.write("\n%d seeded changes; %d reported by the quick check of the property they were written for.\n" % (len(rows), caught))
        print("report written:", len(rows))
    else:
        print(__doc__)
        sys.exit(2)


if __name__ == "__main__":
    main()
