#!/usr/bin/env python3
"""Run quick checks against every behaviour-preserving patch in /verif/neutral/<name>/patch.diff.
   tools/neutral.py [P ...]   (default: all twelve claimed properties). /repo is always restored.
   NEUTRAL_ONLY=N1-2,N9-3 restricts the run to those patches."""
import os, subprocess, sys, json
ROOT = os.path.dirname(os.path.dirname(os.path.abspath(__file__)))
ND = os.path.join(ROOT, "neutral")
props = sys.argv[1:] or ["C02", "C04", "C05", "C06", "C09", "C11", "C12", "C13", "C15", "C17", "C18", "C20"]
if subprocess.run(["git", "status", "--porcelain", "--untracked-files=no"], cwd="/repo", capture_output=True, text=True).stdout.strip():
    print("/repo has uncommitted changes; refusing"); sys.exit(2)
alarms = 0; runs = 0
ONLY = [x for x in os.environ.get("NEUTRAL_ONLY", "").split(",") if x]  # optional subset of patch names
for d in sorted(x for x in os.listdir(ND) if os.path.isdir(os.path.join(ND, x)) and (not ONLY or x in ONLY)):
    patch = os.path.join(ND, d, "patch.diff")
    try:
        if subprocess.run(["git", "apply", patch], cwd="/repo").returncode != 0:
            print(d, "patch does not apply"); continue
        res = []
        for p in props:
            r = subprocess.run([os.path.join(ROOT, "check"), p, "quick"], cwd=ROOT, capture_output=True, text=True)
            runs += 1
            if r.returncode != 0:
                alarms += 1
                first = [l for l in r.stdout.splitlines() if l.strip().startswith("scenario=")][:1]
                res.append("%s:ALARM(rc=%d) %s" % (p, r.returncode, first))
        print(d, "silent" if not res else " ".join(res), flush=True)
    finally:
        subprocess.run(["git", "checkout", "--", "."], cwd="/repo")
        subprocess.run(["git", "clean", "-fdq", "src"], cwd="/repo")  # files a patch added
print("%d runs, %d alarms" % (runs, alarms))
