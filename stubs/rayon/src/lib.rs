//! Seeded stand-in for rayon, used only by /verif/sim-rayonstub.
//!
//! `slice.into_par_iter().map(f).sum()` evaluates the same closure on every element and reduces
//! exactly the way rayon's `sum` does — each leaf folds its elements sequentially starting from
//! the additive identity, inner nodes add (left, right) — but the shape of the split tree is
//! decided by a seeded generator (set with `verif_set_seed`) instead of by work stealing, so one
//! seed is one repeatable reduction order. Arbitrary split points are a superset of the halving
//! splits real rayon can produce.

use std::cell::Cell;
use std::iter::Sum;

thread_local! {
    static SEED: Cell<u64> = const { Cell::new(0x9E37_79B9_7F4A_7C15) };
    static LEAVES: Cell<u64> = const { Cell::new(0) };
    static DEPTH: Cell<u64> = const { Cell::new(0) };
}

/// seeds the split tree of the next reductions on this thread
pub fn verif_set_seed(seed: u64) {
    SEED.with(|s| s.set(seed));
}
/// (leaves, depth) of the last reduction on this thread
pub fn verif_last_tree() -> (u64, u64) {
    (LEAVES.with(|l| l.get()), DEPTH.with(|d| d.get()))
}

fn next(state: &mut u64) -> u64 {
    *state = state.wrapping_add(0x9E37_79B9_7F4A_7C15);
    let mut z = *state;
    z = (z ^ (z >> 30)).wrapping_mul(0xBF58_476D_1CE4_E5B9);
    z = (z ^ (z >> 27)).wrapping_mul(0x94D0_49BB_1331_11EB);
    z ^ (z >> 31)
}

pub mod prelude {
    pub use crate::{IntoParallelIterator, ParallelSlice};
}

pub trait ParallelSlice<T: Sync> {
    fn as_parallel_slice(&self) -> &[T];
}
impl<T: Sync> ParallelSlice<T> for [T] {
    fn as_parallel_slice(&self) -> &[T] {
        self
    }
}

pub trait IntoParallelIterator {
    type Iter;
    type Item;
    fn into_par_iter(self) -> Self::Iter;
}
impl<'a, T: Sync + 'a> IntoParallelIterator for &'a [T] {
    type Iter = SliceIter<'a, T>;
    type Item = &'a T;
    fn into_par_iter(self) -> SliceIter<'a, T> {
        SliceIter { s: self }
    }
}

pub struct SliceIter<'a, T> {
    s: &'a [T],
}
impl<'a, T: Sync> SliceIter<'a, T> {
    pub fn map<F, R>(self, f: F) -> Map<'a, T, F, R>
    where
        F: Fn(&'a T) -> R + Sync + Send,
        R: Send,
    {
        Map { s: self.s, f, r: std::marker::PhantomData }
    }
}

pub struct Map<'a, T, F, R> {
    s: &'a [T],
    f: F,
    r: std::marker::PhantomData<R>,
}

fn add<S: Sum<S>>(l: S, r: S) -> S {
    [l, r].into_iter().sum()
}

impl<'a, T: Sync, F, R> Map<'a, T, F, R>
where
    F: Fn(&'a T) -> R + Sync + Send,
    R: Send,
{
    pub fn sum<S>(self) -> S
    where
        S: Send + Sum<R> + Sum<S>,
    {
        let mut state = SEED.with(|s| s.get());
        // leaf threshold drawn once per reduction
        let n = self.s.len();
        let min_leaf = match next(&mut state) % 6 {
            0 => 1,
            1 => 2,
            2 => 8,
            3 => 64,
            4 => 1024,
            _ => n.max(1),
        };
        let mut leaves = 0u64;
        let mut maxdepth = 0u64;
        let r = rec(self.s, &self.f, &mut state, min_leaf, 0, &mut leaves, &mut maxdepth);
        SEED.with(|s| s.set(state));
        LEAVES.with(|l| l.set(leaves));
        DEPTH.with(|d| d.set(maxdepth));
        r
    }
}

fn rec<'a, T, F, R, S>(s: &'a [T], f: &F, state: &mut u64, min_leaf: usize, depth: u64, leaves: &mut u64, maxdepth: &mut u64) -> S
where
    F: Fn(&'a T) -> R,
    S: Sum<R> + Sum<S>,
{
    if depth > *maxdepth {
        *maxdepth = depth;
    }
    if s.len() <= min_leaf || s.len() < 2 || next(state) % 16 == 0 || depth > 200 {
        *leaves += 1;
        // rayon: folder starts from the identity and adds the sequential sum of its items
        let id: S = std::iter::empty::<S>().sum();
        let part: S = s.iter().map(f).sum();
        return add(id, part);
    }
    // mostly near the middle (as work stealing does), sometimes anywhere
    let len = s.len();
    let cut = if next(state) % 4 == 0 {
        1 + (next(state) as usize) % (len - 1)
    } else {
        let lo = len / 4;
        let span = (len / 2).max(1);
        (lo + (next(state) as usize) % span).clamp(1, len - 1)
    };
    let (l, r) = s.split_at(cut);
    let a: S = rec(l, f, state, min_leaf, depth + 1, leaves, maxdepth);
    let b: S = rec(r, f, state, min_leaf, depth + 1, leaves, maxdepth);
    add(a, b)
}
