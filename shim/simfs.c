/* simfs — LD_PRELOAD fault injector for the parameter-file path of probminhash (C20).
 *
 * Interposes open/open64/openat/write/read/close of the dynamically linked Rust std binary.
 * Only descriptors of files whose path ends in "parameters.json" are touched. The fault plan
 * comes from the environment (one plan per child process, decided by the simulator's PRNG or
 * enumeration and recorded in the trace):
 *
 *   SIMFS_KILL_BEFORE_OPEN=1   kill the process when it is about to open the file for writing
 *   SIMFS_KILL_AT=k            kill the process once k bytes of the write stream have reached the
 *                              file (k=0: after open/truncate, before the first byte)
 *   SIMFS_SHORT_WRITE=n        every write transfers at most n bytes (legal kernel behaviour)
 *   SIMFS_EINTR_WRITE=j        the j-th write call fails once with EINTR
 *   SIMFS_SHORT_READ=n         every read transfers at most n bytes
 *   SIMFS_EINTR_READ=j         the j-th read call fails once with EINTR
 *   SIMFS_ENOSPC_AT=k          once k bytes are written, write fails with ENOSPC
 *   SIMFS_LOG=path             append one line per fault actually fired
 *
 * "kill" is _exit(137) without running destructors: nothing buffered in user space survives.
 */
#define _GNU_SOURCE
#include <dlfcn.h>
#include <errno.h>
#include <fcntl.h>
#include <stdarg.h>
#include <stdio.h>
#include <stdlib.h>
#include <string.h>
#include <sys/types.h>
#include <unistd.h>

#define MAXFD 1024
static char tracked[MAXFD];
static long written_total = 0;
static long nwrite_calls = 0, nread_calls = 0;
static int eintr_w_done = 0, eintr_r_done = 0;

static ssize_t (*real_write)(int, const void *, size_t);
static ssize_t (*real_read)(int, void *, size_t);
static int (*real_close)(int);
static int (*real_open)(const char *, int, ...);
static int (*real_open64)(const char *, int, ...);
static int (*real_openat)(int, const char *, int, ...);
static int (*real_openat64)(int, const char *, int, ...);

static long envl(const char *name) {
    const char *v = getenv(name);
    if (!v || !*v) return -1;
    return atol(v);
}

static void logline(const char *what, long a) {
    const char *p = getenv("SIMFS_LOG");
    if (!p) return;
    if (!real_open) real_open = dlsym(RTLD_NEXT, "open");
    if (!real_write) real_write = dlsym(RTLD_NEXT, "write");
    if (!real_close) real_close = dlsym(RTLD_NEXT, "close");
    int fd = real_open(p, O_WRONLY | O_CREAT | O_APPEND, 0644);
    if (fd < 0) return;
    char buf[128];
    int n = snprintf(buf, sizeof buf, "%s %ld\n", what, a);
    if (n > 0) { ssize_t r = real_write(fd, buf, (size_t)n); (void)r; }
    real_close(fd);
}

static int is_target(const char *path) {
    if (!path) return 0;
    size_t n = strlen(path), k = strlen("parameters.json");
    return n >= k && strcmp(path + n - k, "parameters.json") == 0;
}

static void die(const char *why, long a) {
    logline(why, a);
    _exit(137);
}

static void before_open(const char *path, int flags) {
    if (is_target(path) && (flags & (O_WRONLY | O_RDWR)) && envl("SIMFS_KILL_BEFORE_OPEN") == 1)
        die("kill-before-open", 0);
}
static void after_open(const char *path, int flags, int fd) {
    if (fd >= 0 && fd < MAXFD) {
        tracked[fd] = 0;
        if (is_target(path)) {
            tracked[fd] = (flags & (O_WRONLY | O_RDWR)) ? 2 : 1;
            if (tracked[fd] == 2 && envl("SIMFS_KILL_AT") == 0) die("kill-at", 0);
        }
    }
}

#define GETMODE                                   \
    mode_t mode = 0;                              \
    if (flags & (O_CREAT | O_TMPFILE)) {          \
        va_list ap; va_start(ap, flags);          \
        mode = (mode_t)va_arg(ap, int);           \
        va_end(ap);                               \
    }

int open(const char *path, int flags, ...) {
    GETMODE
    if (!real_open) real_open = dlsym(RTLD_NEXT, "open");
    before_open(path, flags);
    int fd = real_open(path, flags, mode);
    after_open(path, flags, fd);
    return fd;
}
int open64(const char *path, int flags, ...) {
    GETMODE
    if (!real_open64) real_open64 = dlsym(RTLD_NEXT, "open64");
    before_open(path, flags);
    int fd = real_open64(path, flags, mode);
    after_open(path, flags, fd);
    return fd;
}
int openat(int dirfd, const char *path, int flags, ...) {
    GETMODE
    if (!real_openat) real_openat = dlsym(RTLD_NEXT, "openat");
    before_open(path, flags);
    int fd = real_openat(dirfd, path, flags, mode);
    after_open(path, flags, fd);
    return fd;
}
int openat64(int dirfd, const char *path, int flags, ...) {
    GETMODE
    if (!real_openat64) real_openat64 = dlsym(RTLD_NEXT, "openat64");
    before_open(path, flags);
    int fd = real_openat64(dirfd, path, flags, mode);
    after_open(path, flags, fd);
    return fd;
}

ssize_t write(int fd, const void *buf, size_t count) {
    if (!real_write) real_write = dlsym(RTLD_NEXT, "write");
    if (fd < 0 || fd >= MAXFD || tracked[fd] != 2) return real_write(fd, buf, count);
    nwrite_calls++;
    long j = envl("SIMFS_EINTR_WRITE");
    if (j >= 1 && nwrite_calls == j && !eintr_w_done) {
        eintr_w_done = 1;
        logline("eintr-write", nwrite_calls);
        errno = EINTR;
        return -1;
    }
    long enospc = envl("SIMFS_ENOSPC_AT");
    if (enospc >= 0 && written_total >= enospc) {
        logline("enospc", written_total);
        errno = ENOSPC;
        return -1;
    }
    size_t n = count;
    long sw = envl("SIMFS_SHORT_WRITE");
    if (sw >= 1 && n > (size_t)sw) { n = (size_t)sw; logline("short-write", (long)n); }
    if (enospc >= 0 && written_total + (long)n > enospc) n = (size_t)(enospc - written_total);
    long kill_at = envl("SIMFS_KILL_AT");
    if (kill_at >= 0 && written_total + (long)n >= kill_at) {
        size_t part = (size_t)(kill_at - written_total);
        if (part > 0) { ssize_t r = real_write(fd, buf, part); (void)r; }
        die("kill-at", kill_at);
    }
    ssize_t r = real_write(fd, buf, n);
    if (r > 0) written_total += r;
    return r;
}

ssize_t read(int fd, void *buf, size_t count) {
    if (!real_read) real_read = dlsym(RTLD_NEXT, "read");
    if (fd < 0 || fd >= MAXFD || tracked[fd] != 1) return real_read(fd, buf, count);
    nread_calls++;
    long j = envl("SIMFS_EINTR_READ");
    if (j >= 1 && nread_calls == j && !eintr_r_done) {
        eintr_r_done = 1;
        logline("eintr-read", nread_calls);
        errno = EINTR;
        return -1;
    }
    long sr = envl("SIMFS_SHORT_READ");
    if (sr >= 1 && count > (size_t)sr) { count = (size_t)sr; logline("short-read", sr); }
    return real_read(fd, buf, count);
}

int close(int fd) {
    if (!real_close) real_close = dlsym(RTLD_NEXT, "close");
    if (fd >= 0 && fd < MAXFD) tracked[fd] = 0;
    return real_close(fd);
}
