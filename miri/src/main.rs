//! C18 under Miri: every Sig implementation (and ProbMinHash3aSha over the vector key types) on
//! values derived from argv[1]; Miri is the deterministic abstract-machine simulator that decides
//! "never reads or frees memory it does not own" (use after free, double free, layout mismatch,
//! uninitialised reads). `-Zmiri-many-seeds` varies Miri's own allocator / scheduler choices.

use indexmap::IndexMap;
use probminhash::probminhasher::sig::Sig;
use probminhash::probminhasher::ProbMinHash3aSha;

fn sm(x: &mut u64) -> u64 {
    *x = x.wrapping_add(0x9E37_79B9_7F4A_7C15);
    let mut z = *x;
    z = (z ^ (z >> 30)).wrapping_mul(0xBF58_476D_1CE4_E5B9);
    z = (z ^ (z >> 27)).wrapping_mul(0x94D0_49BB_1331_11EB);
    z ^ (z >> 31)
}

fn main() {
    let seed: u64 = std::env::args().nth(1).and_then(|s| s.parse().ok()).unwrap_or(1);
    let mut s = seed;
    let mut checked = 0u64;
    for round in 0..6 {
        let n = [0usize, 1, 3, 8, 17, 64][round];
        let v: Vec<u64> = (0..n).map(|_| sm(&mut s)).collect();
        let v8: Vec<u8> = v.iter().map(|x| *x as u8).collect();
        let v16: Vec<u16> = v.iter().map(|x| *x as u16).collect();
        let v32: Vec<u32> = v.iter().map(|x| *x as u32).collect();
        assert_eq!(v8.get_sig(), v8);
        assert_eq!(v16.get_sig(), v16.iter().flat_map(|x| x.to_ne_bytes()).collect::<Vec<u8>>());
        assert_eq!(v32.get_sig(), v32.iter().flat_map(|x| x.to_ne_bytes()).collect::<Vec<u8>>());
        // twice in a row and dropped in another order (allocator reuse)
        let a = v16.get_sig();
        let b = v16.get_sig();
        drop(a);
        assert_eq!(b, v16.iter().flat_map(|x| x.to_ne_bytes()).collect::<Vec<u8>>());
        checked += 5;
    }
    let x = sm(&mut s);
    assert_eq!((x as u8).get_sig(), vec![x as u8]);
    assert_eq!((x as u16).get_sig(), (x as u16).to_ne_bytes().to_vec());
    assert_eq!((x as u32).get_sig(), (x as u32).to_ne_bytes().to_vec());
    assert_eq!(x.get_sig(), x.to_ne_bytes().to_vec());
    assert_eq!((x as i16).get_sig(), (x as i16).to_ne_bytes().to_vec());
    assert_eq!((x as i32).get_sig(), (x as i32).to_ne_bytes().to_vec());
    let st = format!("clé-{}-∑", x);
    assert_eq!(st.get_sig(), st.as_bytes().to_vec());
    checked += 7;
    // through the Sha sketcher with vector keys
    let mut sk16 = ProbMinHash3aSha::<Vec<u16>>::new(4, vec![0xffff]);
    let mut mp: IndexMap<Vec<u16>, f64> = IndexMap::new();
    for k in 0..5u64 {
        mp.insert(vec![(sm(&mut s) % 1000) as u16, k as u16], 1.0 + k as f64);
    }
    sk16.hash_weigthed_idxmap(&mp);
    assert!(sk16.get_signature().iter().all(|k| mp.contains_key(k)));
    let mut sk32 = ProbMinHash3aSha::<Vec<u32>>::new(3, vec![0xffff_ffff]);
    let mut mp32: IndexMap<Vec<u32>, f64> = IndexMap::new();
    for k in 0..4u64 {
        mp32.insert(vec![sm(&mut s) as u32, k as u32, 7], 2.0);
    }
    sk32.hash_weigthed_idxmap(&mp32);
    assert!(sk32.get_signature().iter().all(|k| mp32.contains_key(k)));
    checked += 2;
    println!("MIRI-OK seed={} checked={}", seed, checked);
}
